import Agd.Gen.TrC05
import Agd.Model.ECS
import Agd.Model.ECSRefresh
/-!
# C05: the ECS cache path as translated from the source

`Agd.Gen.TrC05.*` are regenerated from `internal/ecscache/{ecscache,cache,msg}.go`,
`internal/dnsmsg/dnsmsg.go` and `internal/dnssvc/internal/ratelimitmw/{requestinfo,ratelimitmw}.go`
on every run (`extract/tr.go`, symbolic mode).  Values of library types (`netip.Prefix`, `netip.Addr`,
`*dns.Msg`, caches, GeoIP) are *tokens* (`String`, `Option String` for nilable types); the results of
library calls are parameters; every definition returns the trace of the calls it makes, in order, with
their arguments.  The theorems quantify over all tokens and all call results.
-/
set_option linter.unusedSimpArgs false
set_option linter.unusedVariables false
namespace Agd.Tie.TrC05
open Agd.Gen.TrC05 Agd.TrPrelude

theorem translation_complete : translationFailures = [] := by decide

abbrev Trace := List (String × List String)

/-- Names of the calls in a trace. -/
def names (tr : Trace) : List String := tr.map (·.1)

/-- Argument lists of the calls named `n`, in order. -/
def callsOf (n : String) (tr : Trace) : List (List String) := (tr.filter (·.1 == n)).map (·.2)

/-- `a` occurs, and some `b` occurs after its first occurrence. -/
def before (a b : String) (l : List String) : Bool := ((l.dropWhile (fun x => !(x == a))).drop 1).any (fun x => x == b)

/-! ## `respIsECSDependent` -/

/-- The translated function is the hand model's `respIsECSDependent` (all scopes, all hosts, all
`FakeECSFQDNs` sets). -/
theorem respIsECSDependent_tr (env : Agd.ECS.Env) (scope host : Nat) (fqdn : String) :
    (respIsECSDependent (scope : Int) fqdn (env.fake host)).1 = Agd.ECS.respIsECSDependent env scope host := by
  unfold respIsECSDependent Agd.ECS.respIsECSDependent
  by_cases h : scope = 0
  · simp [h]
  · have : ¬ ((scope : Int) = 0) := by omega
    simp [h, this]

/-- Scope zero is never ECS-dependent, and the fake-ECS list is not even consulted. -/
theorem scope_zero_independent (fqdn : String) (has : Bool) :
    respIsECSDependent 0 fqdn has = (false, []) := by
  simp [respIsECSDependent]

example : (respIsECSDependent 24 "example.org." false).1 = true := by decide

/-! ## `locFromReq` -/

/-- Reading of a translated `geoip.Location` as the hand model's `Loc`, for encodings of the
country / subdivision strings as numbers. -/
def toLoc (cn sn : String → Nat) (l : S_geoip_Location) : Agd.ECS.Loc := ⟨cn l.Country, sn l.TopSubdivision, l.ASN.toNat⟩

/-- `locFromReq` is the hand model's `locFromReq`, for every request information and every encoding
of countries that maps exactly the empty string (`geoip.CountryNone`) to `0`. -/
theorem locFromReq_tr (cn sn : String → Nat) (hcn : ∀ s, cn s = 0 ↔ s = "") (hsn : sn "" = 0)
    (ri : S_agd_RequestInfo) :
    (locFromReq (some ri)).map (·.map (toLoc cn sn)) =
      some (some (Agd.ECS.locFromReq (ri.Location.map (toLoc cn sn))
        ((ri.ECS.bind (·.Location)).map (toLoc cn sn)))) := by
  have h0 : cn "" = 0 := (hcn "").2 rfl
  unfold locFromReq Agd.ECS.locFromReq toLoc
  cases hE : ri.ECS with
  | none =>
    cases hL : ri.Location with
    | none => simp [hE, hL, h0, hsn]
    | some l =>
      simp [hE, hL, h0, hsn]
  | some e =>
    cases hEL : e.Location with
    | none =>
      cases hL : ri.Location with
      | none => simp [hE, hL, hEL, h0, hsn]
      | some l => simp [hE, hL, hEL, h0, hsn]
    | some el =>
      cases hL : ri.Location with
      | none =>
        by_cases hc : el.Country = "" <;> simp [hE, hL, hEL, h0, hsn, hc, hcn]
      | some l =>
        by_cases hc : el.Country = "" <;> simp [hE, hL, hEL, h0, hsn, hc, hcn]

/-- `locFromReq` never panics on a non-nil request information and always returns a location. -/
theorem locFromReq_total (ri : S_agd_RequestInfo) : ∃ l, locFromReq (some ri) = some (some l) := by
  unfold locFromReq
  cases hE : ri.ECS with
  | none => cases hL : ri.Location <;> simp [hE, hL]
  | some e =>
    cases hEL : e.Location with
    | none => cases hL : ri.Location <;> simp [hE, hL, hEL]
    | some el =>
      cases hL : ri.Location <;> by_cases hc : el.Country = "" <;> simp [hE, hL, hEL, hc]


/-! ## `ecsFamFromReq` -/

/-- The family follows the address of the ECS option when there is one (`Is4` is asked about the
result of `ecs.Subnet.Addr()`), otherwise the remote address; `1` (IPv4) iff `Is4` says so. -/
theorem ecsFam_source (ri : S_agd_RequestInfo) (addr : String) (is4 : Bool) :
    ecsFamFromReq (some ri) addr is4 =
      some (if is4 then 1 else 2,
        match ri.ECS with
        | some e => [("Addr", [e.Subnet]), ("Is4", [addr])]
        | none => [("Is4", [ri.RemoteIP])]) := by
  unfold ecsFamFromReq
  cases hE : ri.ECS <;> cases is4 <;> simp [hE]

theorem ecsFam_total (ri : S_agd_RequestInfo) (addr : String) (is4 : Bool) :
    ecsFamFromReq (some ri) addr is4 ≠ none := by
  rw [ecsFam_source]; simp

/-! ## `dnsmsg.ecsData`: validation of one ECS option -/

/-- An option is accepted iff its family is 1 or 2, `netutil.IPToAddr` accepts the address, the
prefix is valid for the address and masking changes nothing; then the prefix built by
`netip.PrefixFrom` and the option's own scope are returned.  Otherwise an error and the zero prefix. -/
theorem ecsData_accepts (esn : Option String) (fam mask scope : Int) (ipr : String × Option String)
    (pfx masked : String) (valid : Bool) :
    let r := ecsData esn fam ipr mask pfx valid masked scope
    (r.2.2 = none ↔ ((fam = 1 ∨ fam = 2) ∧ ipr.2 = none ∧ valid = true ∧ masked = pfx)) ∧
    (r.2.2 = none → r.1 = pfx ∧ r.2.1 = scope) ∧
    (r.2.2 ≠ none → r.1 = "" ∧ r.2.1 = 0) := by
  unfold ecsData
  by_cases h1 : fam = 1 <;> by_cases h2 : fam = 2 <;> cases hi : ipr.2 <;> cases valid <;>
    by_cases hm : masked = pfx <;> simp [h1, h2, hi, hm]

example : (ecsData none 1 ("1.2.3.0", none) 24 "1.2.3.0/24" true "1.2.3.0/24" 0) = ("1.2.3.0/24", 0, none) := by decide
example : (ecsData none 1 ("1.2.3.4", none) 24 "1.2.3.4/24" true "1.2.3.0/24" 0).2.2 ≠ none := by decide

/-! ## `ratelimitmw.location`, `locationData`, `processLocationErr` -/

/-- `locationData` asks GeoIP about exactly the address it was given and returns that answer whether
or not GeoIP reported an error. -/
theorem locationData_lookup (mw : S_ratelimitmw_Middleware) (ctx : Option String) (ip typ : String)
    (d : Option S_geoip_Location × Option String) :
    Middleware_locationData mw ctx ip typ d = (d.1, [("Data", [toString mw.geoIP, "", ip])]) := by
  unfold Middleware_locationData
  cases h1 : d.2 <;> cases h2 : d.1 <;> simp [h1, h2]

/-- A malformed option: the error is returned with the client's own location and *no* ECS data; the
option's address is not looked up. -/
theorem location_malformed (mw : S_ratelimitmw_Middleware) (ctx req : Option String) (rip : String)
    (l1 l2 : Option S_geoip_Location) (sub : String) (sc : Int) (e : String) :
    let r := Middleware_location mw ctx req rip l1 (sub, sc, some e) l2
    r.1 = l1 ∧ r.2.1 = none ∧ r.2.2.1 ≠ none ∧
      callsOf "locationData" r.2.2.2 = [[toString ctx, rip, "client"]] := by
  simp [Middleware_location, callsOf]

/-- No option (the zero prefix): no ECS data; a valid option: its prefix and scope, with the location
of *the option's* address (`subnet.Addr()`), the client's location being that of the remote address. -/
theorem location_wellformed (mw : S_ratelimitmw_Middleware) (ctx req : Option String) (rip : String)
    (l1 l2 : Option S_geoip_Location) (sub : String) (sc : Int) :
    let r := Middleware_location mw ctx req rip l1 (sub, sc, none) l2
    r.1 = l1 ∧ r.2.2.1 = none ∧
    (sub = "" → r.2.1 = none ∧ callsOf "locationData" r.2.2.2 = [[toString ctx, rip, "client"]]) ∧
    (sub ≠ "" → r.2.1 = some ⟨l2, sub, sc⟩ ∧
      callsOf "locationData" r.2.2.2 = [[toString ctx, rip, "client"], [toString ctx, sub ++ ".Addr" ++ "(" ++ ")", "ecs"]]) := by
  by_cases h : sub = "" <;> simp [Middleware_location, callsOf, h]

/-- A `BadECSError` is answered with FORMERR (rcode 1) written to the client; any other error is
returned untouched and nothing is written. -/
theorem formerr_on_bad_ecs (mw : S_ratelimitmw_Middleware) (ctx rw req orig : Option String) (isBad : Bool)
    (resp werr ann : Option String) :
    let r := Middleware_processLocationErr mw ctx rw req orig isBad resp werr ann
    (isBad = true → callsOf "NewRespRCode" r.2 = [[toString req, toString (1 : Int)]] ∧
        callsOf "WriteMsg" r.2 = [[toString rw, toString ctx, toString req, toString resp]] ∧
        before "NewRespRCode" "WriteMsg" (names r.2) = true) ∧
    (isBad = false → r.1 = orig ∧ "WriteMsg" ∉ names r.2 ∧ "NewRespRCode" ∉ names r.2) := by
  cases isBad <;> simp [Middleware_processLocationErr, callsOf, names, before]


/-- Round 4 (after `fix: ratelimitmw: do not return the ecs error after answering it with formerr`):
for a `BadECSError` the function returns what `errors.Annotate` makes of the error of `WriteMsg` —
nil when the FORMERR was written — and never the original error, so the server does not follow the
FORMERR with a SERVFAIL. -/
theorem formerr_returns_write_error_only (mw : S_ratelimitmw_Middleware) (ctx rw req orig : Option String)
    (resp werr ann : Option String) :
    let r := Middleware_processLocationErr mw ctx rw req orig true resp werr ann
    r.1 = ann ∧ callsOf "Annotate" r.2 = [[toString werr, "writing formerr resp: %w"]] ∧
      "WithDeferred" ∉ names r.2 := by
  simp [Middleware_processLocationErr, callsOf, names]

/-! ## The two caches: `get`, `itemFromCache`, `toCacheKey`, `set` -/

/-- A look-up that misses, or hits an entry stored for another host name (hash collision), yields
nothing; otherwise the entry. -/
theorem itemFromCache_host_check (mw : S_ecscache_Middleware) (ctx cache : Option String) (key : Int)
    (cr : S_ecscache_cacheRequest) (it : Option S_ecscache_cacheItem) (ok : Bool) :
    Middleware_itemFromCache mw ctx cache key (some cr) (it, ok) =
      match ok, it with
      | false, _ => some (none, false, [("Get", [toString cache, toString key])])
      | true, none => none
      | true, some i => some (if i.host = cr.host then (some i, true, [("Get", [toString cache, toString key])])
                              else (none, false, [("Get", [toString cache, toString key])])) := by
  unfold Middleware_itemFromCache
  cases ok <;> cases it <;> simp
  split <;> simp_all

/-- The plain cache is asked first, with the key computed for "not ECS-dependent"; a hit there is
returned as not ECS-dependent and the ECS cache is not consulted. -/
theorem get_plain_hit (mw : S_ecscache_Middleware) (ctx req : Option String) (cr : S_ecscache_cacheRequest)
    (k1 k2 : Int) (it : Option S_ecscache_cacheItem) (i2 : Option S_ecscache_cacheItem × Bool) (m1 m2 : Option String) :
    ∃ tr, Middleware_get mw ctx req (some cr) k1 (it, true) m1 k2 i2 m2 = some (m1, false, tr) ∧
      callsOf "toCacheKey" tr = [[reprStr (some cr), toString false]] ∧
      callsOf "itemFromCache" tr = [[toString ctx, toString mw.cache, toString k1, reprStr (some cr)]] := by
  simp [Middleware_get, callsOf]

/-- A client that opted out (`isECSDeclined`) and misses the plain cache gets nothing: the cache of
subnet-scoped answers is never consulted for it. -/
theorem get_declined_never_ecs_cache (mw : S_ecscache_Middleware) (ctx req : Option String) (cr : S_ecscache_cacheRequest)
    (hd : cr.isECSDeclined = true)
    (k1 k2 : Int) (it : Option S_ecscache_cacheItem) (i2 : Option S_ecscache_cacheItem × Bool) (m1 m2 : Option String) :
    ∃ tr, Middleware_get mw ctx req (some cr) k1 (it, false) m1 k2 i2 m2 = some (none, false, tr) ∧
      callsOf "itemFromCache" tr = [[toString ctx, toString mw.cache, toString k1, reprStr (some cr)]] ∧
      callsOf "toCacheKey" tr = [[reprStr (some cr), toString false]] := by
  simp [Middleware_get, callsOf, hd]

/-- Otherwise the ECS cache is asked second, with the key computed for "ECS-dependent" from the same
cache request; the answer is ECS-dependent exactly if that look-up hits. -/
theorem get_ecs_second (mw : S_ecscache_Middleware) (ctx req : Option String) (cr : S_ecscache_cacheRequest)
    (hd : cr.isECSDeclined = false)
    (k1 k2 : Int) (it it2 : Option S_ecscache_cacheItem) (ok2 : Bool) (m1 m2 : Option String) :
    ∃ tr, Middleware_get mw ctx req (some cr) k1 (it, false) m1 k2 (it2, ok2) m2 =
        some (if ok2 then m2 else none, ok2, tr) ∧
      callsOf "toCacheKey" tr = [[reprStr (some cr), toString false], [reprStr (some cr), toString true]] ∧
      callsOf "itemFromCache" tr = [[toString ctx, toString mw.cache, toString k1, reprStr (some cr)],
        [toString ctx, toString mw.ecsCache, toString k2, reprStr (some cr)]] := by
  cases ok2 <;> simp [Middleware_get, callsOf, hd]

theorem get_total (mw : S_ecscache_Middleware) (ctx req : Option String) (cr : S_ecscache_cacheRequest)
    (k1 k2 : Int) (i1 i2 : Option S_ecscache_cacheItem × Bool) (m1 m2 : Option String) :
    Middleware_get mw ctx req (some cr) k1 i1 m1 k2 i2 m2 ≠ none := by
  unfold Middleware_get
  cases h1 : i1.2 <;> cases hd : cr.isECSDeclined <;> cases h2 : i2.2 <;> simp [h1, hd, h2]

/-- What is hashed into a cache key.  Always: the host name first, question type and class, the DO
flag, the family flag (`Is6` of the address of `cr.subnet`).  For the ECS cache in addition all
bytes of that address and the prefix length, and *not* the opt-out flag; for the plain cache the
opt-out flag and nothing of the subnet. -/
theorem toCacheKey_hashed (mw : S_ecscache_Middleware) (cr : S_ecscache_cacheRequest) (dep : Bool)
    (ws : Int × Option String) (b1 b2 b3 : List Int) (n1 : Int) (addr : String) (n2 : Int)
    (w1 w2 : Int × Option String) (wb1 : Option String) (sum : Int) (wb2 : Option String) :
    ∃ tr, Middleware_toCacheKey mw (some cr) dep ws b1 b2 n1 addr n2 w1 b3 w2 wb1 sum wb2 = some (sum, tr) ∧
      callsOf "WriteString" tr = [[toString (some ""), cr.host]] ∧
      before "WriteString" "Write" (names tr) = true ∧
      callsOf "PutUint16" tr = [["binary.LittleEndian", toString b1, toString cr.qType],
                                 ["binary.LittleEndian", toString b2, toString cr.qClass]] ∧
      callsOf "BoolToNumber" tr = [[toString cr.reqDO], [addr ++ ".Is6" ++ "(" ++ ")"]] ∧
      callsOf "Addr" tr = [[cr.subnet]] ∧
      (dep = true → callsOf "Write" tr = [[toString (some ""), toString b3], [toString (some ""), addr ++ ".AsSlice" ++ "(" ++ ")"]] ∧
          callsOf "WriteByte" tr = [[toString (some ""), "byte" ++ "(" ++ (cr.subnet ++ ".Bits" ++ "(" ++ ")") ++ ")"]]) ∧
      (dep = false → callsOf "Write" tr = [[toString (some ""), toString b3]] ∧
          callsOf "WriteByte" tr = [[toString (some ""), "mathutil.BoolToNumber[byte]" ++ "(" ++ toString cr.isECSDeclined ++ ")"]]) := by
  cases dep <;> simp [Middleware_toCacheKey, callsOf, names, before]

/-- Nothing is stored for an answer with TTL 0 or one that is not cacheable. -/
theorem set_uncacheable (mw : S_ecscache_Middleware) (resp : Option String) (cr : Option S_ecscache_cacheRequest)
    (dep : Bool) (ttl : Int) (cacheable : Bool) (rcode key : Int) (clone : Option String)
    (h : ttl = 0 ∨ cacheable = false) :
    ∀ tr, Middleware_set mw resp cr dep ttl cacheable rcode key clone = some tr → "SetWithExpire" ∉ names tr := by
  intro tr
  have : (decide (ttl = 0) || !cacheable) = true := by rcases h with h | h <;> simp [h]
  simp [Middleware_set, this]
  intro h; subst h; simp [names]

/-- A cacheable answer goes to the ECS cache iff it is ECS-dependent, to the plain cache otherwise,
under the key `toCacheKey(cr, dependent)` of the storing request. -/
theorem set_chooses_cache (mw : S_ecscache_Middleware) (resp : Option String) (cr : S_ecscache_cacheRequest)
    (dep : Bool) (ttl : Int) (rcode key : Int) (clone : Option String) (h : ttl ≠ 0) :
    ∃ tr e, Middleware_set mw resp (some cr) dep ttl true rcode key clone = some tr ∧
      callsOf "toCacheKey" tr = [[reprStr (some cr), toString dep]] ∧
      callsOf "SetWithExpire" tr = [[toString (if dep then mw.ecsCache else mw.cache), toString key,
        "toCacheItem" ++ "(" ++ toString clone ++ "," ++ cr.host ++ ")", e]] := by
  have : decide (ttl = 0) = false := by simp [h]
  cases dep <;> by_cases h2 : (mw.overrideTTL && !decide (rcode = 2)) = true <;>
    simp [Middleware_set, callsOf, this, h2]


/-! ## `setECS`, `addrToNetIP`, `IsDO` -/

/-- The address bytes are taken only from an address of the requested family; any other family
number is an error. -/
theorem addrToNetIP_family (ip : String) (fam : Int) (is6 is4 : Bool) (a4 : String) (b4 bs : List Int) :
    let r := addrToNetIP ip fam is6 a4 b4 is4 bs
    (r.2.1 = none ↔ (fam = 1 ∧ is6 = false) ∨ (fam = 2 ∧ is4 = false)) ∧
    (fam = 1 → is6 = false → r.1 = b4 ∧ names r.2.2 = ["Is6", "As4"]) ∧
    (fam = 2 → is4 = false → r.1 = bs ∧ r.2.2 = [("Is4", [ip]), ("AsSlice", [ip])]) := by
  unfold addrToNetIP
  by_cases h1 : fam = 1 <;> by_cases h2 : fam = 2 <;> cases is6 <;> cases is4 <;> simp [h1, h2, names] <;> omega

/-- The ECS option `setECS` writes: family = `ecsFam`, source length = the length of `ecs.Subnet`
(as a byte), scope = that same length in a response and `0` in a query, address = what `addrToNetIP`
made of the subnet's address.  It becomes the last option; when the message already had an OPT RR all
ECS options are removed from the message first. -/
theorem setECS_option (msg : Option String) (ecs : S_dnsmsg_ECS) (fam : Int) (isResp : Bool) (ip : List Int)
    (bits : Int) (opt : Option String) (ad : Bool) (newopt : Option String) (old : List (Option String)) :
    ∃ tr, setECS msg (some ecs) fam isResp (ip, none) bits opt ad newopt old = some (none, tr) ∧
      callsOf "addrToNetIP" tr = [[ecs.Subnet ++ ".Addr" ++ "(" ++ ")", toString fam]] ∧
      callsOf "Bits" tr = [[ecs.Subnet]] ∧
      callsOf "opt.Option =" tr = [[toString (old ++ [some ("dns.EDNS0_SUBNET{" ++ "Code=" ++ toString (8 : Int) ++ ";" ++
        "Family=" ++ toString fam ++ ";" ++ "SourceNetmask=" ++ toString (goWrapU 256 bits) ++ ";" ++
        "SourceScope=" ++ toString (if isResp then goWrapU 256 bits else 0) ++ ";" ++
        "Address=" ++ toString ip ++ ";" ++ "}")])]] ∧
      (opt ≠ none → before "rmECSOpts" "opt.Option =" (names tr) = true ∧ callsOf "rmECSOpts" tr = [[toString msg]]) ∧
      (opt = none → callsOf "SetEdns0" tr = [[toString msg, toString (4096 : Int), toString (!isResp || ad)]]) := by
  cases isResp <;> cases opt <;> simp [setECS, callsOf, names, before]

/-- If the subnet's address does not fit the family, nothing is written into the message. -/
theorem setECS_bad_family (msg : Option String) (ecs : S_dnsmsg_ECS) (fam : Int) (isResp : Bool) (ip : List Int) (e : String)
    (bits : Int) (opt : Option String) (ad : Bool) (newopt : Option String) (old : List (Option String)) :
    match setECS msg (some ecs) fam isResp (ip, some e) bits opt ad newopt old with
    | some (err, tr) => err ≠ none ∧ names tr = ["addrToNetIP"]
    | none => False := by
  simp [setECS, names]

theorem isDO_tr (msg opt : Option String) (d : Bool) :
    (IsDO msg opt d).1 = (opt.isSome && d) := by
  simp [IsDO]

/-! ## Writing responses -/

/-- A cached answer carries an ECS option exactly when the query carried a valid one: `setECS` is
called iff `ecs ≠ nil`, with the client's own ECS data, as a response (scope = source length), before
the message is written. -/
theorem cached_response_echo (ctx rw req resp : Option String) (ecs : Option S_dnsmsg_ECS) (fam : Int)
    (dep : Bool) (se wm : Option String) :
    let r := writeCachedResponse ctx rw req resp ecs fam dep se wm
    callsOf "setECS" r.2 = (match ecs with
      | some e => [[toString resp, reprStr (some e), toString fam, toString true]]
      | none => []) ∧
    (se = none ∨ ecs = none → callsOf "WriteMsg" r.2 = [[toString rw, toString ctx, toString req, toString resp]]) ∧
    (ecs ≠ none → se ≠ none → r.1 ≠ none ∧ "WriteMsg" ∉ names r.2) ∧
    (ecs ≠ none → se = none → before "setECS" "WriteMsg" (names r.2) = true) := by
  cases ecs <;> cases se <;> cases wm <;> simp [writeCachedResponse, callsOf, names, before]

/-- An upstream answer with a malformed ECS option is an error: nothing is cached, nothing written. -/
theorem upstream_bad_ecs (mw : S_ecscache_Middleware) (ctx rw req resp : Option String)
    (ri : Option S_agd_RequestInfo) (cr : Option S_ecscache_cacheRequest) (fam : Int) (sub : String) (sc : Int) (e : String)
    (dep : Bool) (nm : String) (ad : Bool) (se wm : Option String) (z : String) :
    match Middleware_writeUpstreamResponse mw ctx rw req resp ri cr fam (sub, sc, some e) dep nm ad se wm z with
    | some (err, tr) => err ≠ none ∧ names tr = ["ECSFromMsg"]
    | none => False := by
  simp [Middleware_writeUpstreamResponse, names]

/-- An upstream answer is judged by the scope of *its* ECS option and the question name.  If it is
not ECS-dependent it is stored under the zero prefix of the family: the subnet of the cache request is
replaced by `netutil.ZeroPrefix(ecsFam)` before `set`. -/
theorem upstream_independent_stored_under_zero (mw : S_ecscache_Middleware) (ctx rw req resp : Option String)
    (ri : S_agd_RequestInfo) (cr : S_ecscache_cacheRequest) (fam : Int) (sub : String) (sc : Int)
    (nm : String) (ad : Bool) (se wm : Option String) (z : String) :
    match Middleware_writeUpstreamResponse mw ctx rw req resp (some ri) (some cr) fam (sub, sc, none) false nm ad se wm z with
    | none => False
    | some (res, tr) =>
      callsOf "respIsECSDependent" tr = [[toString sc, nm]] ∧
      callsOf "ZeroPrefix" tr = [[toString fam]] ∧
      callsOf "set" tr = [[toString resp, reprStr (some { cr with subnet := z }), toString false]] := by
  cases hE : ri.ECS <;> cases se <;> cases wm <;>
    simp [Middleware_writeUpstreamResponse, callsOf, hE]

/-- An ECS-dependent answer is stored under the request's own subnet (the cache request unchanged). -/
theorem upstream_dependent_stored_under_subnet (mw : S_ecscache_Middleware) (ctx rw req resp : Option String)
    (ri : S_agd_RequestInfo) (cr : S_ecscache_cacheRequest) (fam : Int) (sub : String) (sc : Int)
    (nm : String) (ad : Bool) (se wm : Option String) (z : String) :
    match Middleware_writeUpstreamResponse mw ctx rw req resp (some ri) (some cr) fam (sub, sc, none) true nm ad se wm z with
    | none => False
    | some (res, tr) =>
      callsOf "respIsECSDependent" tr = [[toString sc, nm]] ∧
      callsOf "ZeroPrefix" tr = [] ∧
      callsOf "set" tr = [[toString resp, reprStr (some cr), toString true]] := by
  cases hE : ri.ECS <;> cases se <;> cases wm <;>
    simp [Middleware_writeUpstreamResponse, callsOf, hE]


/-- The store happens before the client's ECS option is put into the message; that option is echoed
iff the query had a valid one (`ri.ECS ≠ nil`), with the client's own data, as a response. -/
theorem upstream_response_echo (mw : S_ecscache_Middleware) (ctx rw req resp : Option String)
    (ri : S_agd_RequestInfo) (cr : S_ecscache_cacheRequest) (fam : Int) (sub : String) (sc : Int)
    (dep : Bool) (nm : String) (ad : Bool) (se wm : Option String) (z : String) :
    match Middleware_writeUpstreamResponse mw ctx rw req resp (some ri) (some cr) fam (sub, sc, none) dep nm ad se wm z with
    | none => False
    | some (res, tr) =>
      callsOf "setECS" tr = (match ri.ECS with
        | some e => [[toString resp, reprStr (some e), toString fam, toString true]]
        | none => []) ∧
      (ri.ECS ≠ none → before "set" "setECS" (names tr) = true) ∧
      (ri.ECS = none ∨ se = none → before "set" "WriteMsg" (names tr) = true ∧
        callsOf "WriteMsg" tr = [[toString rw, toString ctx, toString req, toString resp]]) := by
  cases dep <;> cases hE : ri.ECS <;> cases se <;> cases wm <;>
    simp [Middleware_writeUpstreamResponse, callsOf, names, before, hE]

/-! ## `mwHandler.ServeDNS` -/

/-- The ECS data handed to `setECS` for the upstream query when the cache request carries `sub`. -/
def upstreamECS (sub : String) : Option S_dnsmsg_ECS := some ⟨none, sub, 0⟩

/-- The client opted out (`ri.ECS ≠ nil` with a zero-length prefix): GeoIP is not asked for a
subnet at all; the cache is consulted with the zero prefix of the family and the opt-out flag set; on
a miss the upstream query gets exactly that zero prefix with scope 0, and the handler that is called is
given the clone that `setECS` modified, never the client's message. -/
theorem declined_zero_prefix_upstream (mh : S_ecscache_mwHandler) (ctx rw req : Option String)
    (cr : S_ecscache_cacheRequest) (ri : S_agd_RequestInfo) (e : S_dnsmsg_ECS) (hE : ri.ECS = some e)
    (isDO : Bool) (fam : Int) (z : String) (dep : Bool) (wc clone : Option String)
    (nrw : Option S_dnsserver_NonWriterResponseWriter) (up msg wu : Option String) (sbl : String × Option String) :
    match mwHandler_ServeDNS mh ctx rw req (some cr) (some ri) isDO fam 0 z (none, dep) wc clone none nrw up msg wu sbl with
    | none => False
    | some (res, tr) =>
      "SubnetByLocation" ∉ names tr ∧
      callsOf "ZeroPrefix" tr = [[toString fam]] ∧
      callsOf "get" tr = [[toString ctx, toString req,
        reprStr (some ({ host := ri.Host, subnet := z, qType := ri.QType, qClass := ri.QClass, reqDO := isDO, isECSDeclined := true } : S_ecscache_cacheRequest))]] ∧
      callsOf "setECS" tr = [[toString clone, reprStr (upstreamECS z), toString fam, toString false]] ∧
      callsOf "ServeDNS" tr = [[toString mh.next, toString ctx, reprStr nrw, toString clone]] ∧
      before "setECS" "ServeDNS" (names tr) = true := by
  cases up <;> cases msg <;>
    simp [mwHandler_ServeDNS, callsOf, names, before, hE, upstreamECS]

/-- Every other client: GeoIP is asked for the subnet of `locFromReq(ri)` (the location attributed to
the ECS option's address, else to the client's) in the family `ecsFamFromReq(ri)`; the cache is
consulted with that subnet; on a miss the upstream query carries exactly the subnet GeoIP returned,
scope 0 — whatever the client's address or the prefix it supplied. -/
theorem geo_subnet_upstream (mh : S_ecscache_mwHandler) (ctx rw req : Option String)
    (cr : S_ecscache_cacheRequest) (ri : S_agd_RequestInfo) (bits : Int)
    (hnd : ri.ECS = none ∨ bits ≠ 0) (loc : S_geoip_Location) (hloc : locFromReq (some ri) = some (some loc))
    (isDO : Bool) (fam : Int) (z : String) (dep : Bool) (wc clone : Option String)
    (nrw : Option S_dnsserver_NonWriterResponseWriter) (up msg wu : Option String) (sub : String)
    (mw : S_ecscache_Middleware) (hmw : mh.mw = some mw) :
    match mwHandler_ServeDNS mh ctx rw req (some cr) (some ri) isDO fam bits z (none, dep) wc clone none nrw up msg wu (sub, none) with
    | none => False
    | some (res, tr) =>
      "ZeroPrefix" ∉ names tr ∧
      callsOf "SubnetByLocation" tr = [[toString mw.geoIP, reprStr (some loc), toString fam]] ∧
      callsOf "get" tr = [[toString ctx, toString req,
        reprStr (some ({ host := ri.Host, subnet := sub, qType := ri.QType, qClass := ri.QClass, reqDO := isDO, isECSDeclined := false } : S_ecscache_cacheRequest))]] ∧
      callsOf "setECS" tr = [[toString clone, reprStr (upstreamECS sub), toString fam, toString false]] ∧
      callsOf "ServeDNS" tr = [[toString mh.next, toString ctx, reprStr nrw, toString clone]] ∧
      before "SubnetByLocation" "get" (names tr) = true ∧ before "setECS" "ServeDNS" (names tr) = true := by
  have hdec : ((ri.ECS).isSome && decide (bits = 0)) = false := by
    rcases hnd with h | h <;> simp [h]
  cases up <;> cases msg <;>
    simp [mwHandler_ServeDNS, callsOf, names, before, hdec, hloc, upstreamECS, hmw]

/-- A GeoIP failure ends the request with an error before the cache or the upstream is touched. -/
theorem geo_error_stops (mh : S_ecscache_mwHandler) (ctx rw req : Option String)
    (cr : S_ecscache_cacheRequest) (ri : S_agd_RequestInfo) (bits : Int)
    (hnd : ri.ECS = none ∨ bits ≠ 0) (loc : S_geoip_Location) (hloc : locFromReq (some ri) = some (some loc))
    (isDO : Bool) (fam : Int) (z : String) (g : Option String × Bool) (wc clone se : Option String)
    (nrw : Option S_dnsserver_NonWriterResponseWriter) (up msg wu : Option String) (sub e : String) :
    match mwHandler_ServeDNS mh ctx rw req (some cr) (some ri) isDO fam bits z g wc clone se nrw up msg wu (sub, some e) with
    | none => False
    | some (res, tr) => res ≠ none ∧ "get" ∉ names tr ∧ "setECS" ∉ names tr ∧ "ServeDNS" ∉ names tr := by
  have hdec : ((ri.ECS).isSome && decide (bits = 0)) = false := by
    rcases hnd with h | h <;> simp [h]
  simp [mwHandler_ServeDNS, names, hdec, hloc]

/-- A cache hit is written with the client's own ECS data (`ri.ECS`) and the flag the cache returned;
the upstream is not consulted and no query is built. -/
theorem cache_hit_no_upstream (mh : S_ecscache_mwHandler) (ctx rw req : Option String)
    (cr : S_ecscache_cacheRequest) (ri : S_agd_RequestInfo) (bits : Int)
    (loc : S_geoip_Location) (hloc : locFromReq (some ri) = some (some loc))
    (isDO : Bool) (fam : Int) (z : String) (hit : String) (dep : Bool) (wc clone se : Option String)
    (nrw : Option S_dnsserver_NonWriterResponseWriter) (up msg wu : Option String) (sub : String) :
    match mwHandler_ServeDNS mh ctx rw req (some cr) (some ri) isDO fam bits z (some hit, dep) wc clone se nrw up msg wu (sub, none) with
    | none => False
    | some (res, tr) => res = wc ∧ "setECS" ∉ names tr ∧ "ServeDNS" ∉ names tr ∧ "Clone" ∉ names tr ∧
        callsOf "writeCachedResponse" tr = [[toString ctx, toString rw, toString req, toString (some hit),
          reprStr ri.ECS, toString fam, toString dep]] := by
  cases hd : ((ri.ECS).isSome && decide (bits = 0)) <;>
    simp [mwHandler_ServeDNS, callsOf, names, hd, hloc]

/-- After a successful upstream exchange the response, the request information and the cache request
(with the subnet that was sent upstream) go to `writeUpstreamResponse`; an upstream that wrote nothing
ends the request without a response. -/
theorem upstream_result_processed (mh : S_ecscache_mwHandler) (ctx rw req : Option String)
    (cr : S_ecscache_cacheRequest) (ri : S_agd_RequestInfo) (bits : Int)
    (hnd : ri.ECS = none ∨ bits ≠ 0) (loc : S_geoip_Location) (hloc : locFromReq (some ri) = some (some loc))
    (isDO : Bool) (fam : Int) (z : String) (dep : Bool) (wc clone : Option String)
    (nrw : Option S_dnsserver_NonWriterResponseWriter) (msg wu : Option String) (sub : String) :
    match mwHandler_ServeDNS mh ctx rw req (some cr) (some ri) isDO fam bits z (none, dep) wc clone none nrw none msg wu (sub, none) with
    | none => False
    | some (res, tr) =>
      (msg = none → res = none ∧ "writeUpstreamResponse" ∉ names tr) ∧
      (msg ≠ none → res = wu ∧ callsOf "writeUpstreamResponse" tr = [[toString ctx, toString rw, toString req, toString msg,
        reprStr (some ri),
        reprStr (some ({ host := ri.Host, subnet := sub, qType := ri.QType, qClass := ri.QClass, reqDO := isDO, isECSDeclined := false } : S_ecscache_cacheRequest)),
        toString fam]]) := by
  have hdec : ((ri.ECS).isSome && decide (bits = 0)) = false := by
    rcases hnd with h | h <;> simp [h]
  cases msg <;> simp [mwHandler_ServeDNS, callsOf, names, hdec, hloc]

/-- `ServeDNS` does not panic when the pool and the context deliver non-nil values. -/
theorem serveDNS_total (mh : S_ecscache_mwHandler) (ctx rw req : Option String)
    (cr : S_ecscache_cacheRequest) (ri : S_agd_RequestInfo)
    (isDO : Bool) (fam bits : Int) (z : String) (g : Option String × Bool) (wc clone se : Option String)
    (nrw : Option S_dnsserver_NonWriterResponseWriter) (up msg wu : Option String) (sbl : String × Option String) :
    mwHandler_ServeDNS mh ctx rw req (some cr) (some ri) isDO fam bits z g wc clone se nrw up msg wu sbl ≠ none := by
  obtain ⟨loc, hloc⟩ := locFromReq_total ri
  cases hd : ((ri.ECS).isSome && decide (bits = 0)) <;> cases hg : g.1 <;> cases se <;> cases up <;> cases msg <;>
    cases hs : sbl.2 <;> simp [mwHandler_ServeDNS, hd, hloc, hg, hs]

example : (mwHandler_ServeDNS ⟨none, none⟩ none none none none none false 1 0 "" (none, false) none none none none none none none ("", none)) = none := by
  decide


/-! ## `geoip.File.Refresh` and `geoip.File.Data`: the lock protocol (wave h)

`Model/ECSRefresh.lean` runs the refresher as the program `codeProg = [lock, swap, clear, unlock]`
against look-ups whose locked part (`fill`) covers the readers and `setCaches`.  The theorems below
read both facts off the translated source, for every run. -/

/-- The lock-protocol actions in a trace (the swap of the readers is an assignment, not a call: it is
visible in the returned `File`). -/
def lockActs (tr : Trace) : List Agd.ECS.Refresh.RAct :=
  tr.filterMap fun c =>
    if c.1 == "Lock" then some .lock
    else if c.1 == "Unlock" then some .unlock
    else if c.1 == "Clear" then some .clear
    else none

/-- **refresh_success_trace.**  A refresh whose three fallible steps succeed: the files are read and the
maps rebuilt first; then `Lock`, the two `Clear`s — of `f.hostCache` and `f.ipCache`, nothing else is
cleared and nothing is cleared earlier — and the deferred `Unlock`; the returned `File` has the new
readers. -/
theorem refresh_success_trace (f : S_geoip_File) (ctx asn country : Option String) :
    (File_Refresh f ctx (asn, none) (country, none) none).2.1 = none ∧
    (File_Refresh f ctx (asn, none) (country, none) none).1.asn = asn ∧
    (File_Refresh f ctx (asn, none) (country, none) none).1.country = country ∧
    names (File_Refresh f ctx (asn, none) (country, none) none).2.2 =
      ["InfoContext", "geoIPFromFile", "geoIPFromFile", "resetSubnetMappings", "SetToCurrentTime", "Set",
        "SetToCurrentTime", "Set", "Lock", "Clear", "Clear", "Unlock", "InfoContext"] ∧
    callsOf "Clear" (File_Refresh f ctx (asn, none) (country, none) none).2.2 =
      [[toString f.hostCache], [toString f.ipCache]] ∧
    lockActs (File_Refresh f ctx (asn, none) (country, none) none).2.2 = [.lock, .clear, .clear, .unlock] := by
  simp [File_Refresh, names, callsOf, lockActs]

/-- Wherever between `Lock` and `Unlock` the assignment of the readers stands, the program passes the
static criterion of the machine (`refresh_race_safe`); the code has it before the clears (`codeProg`,
with the two clears as one). -/
theorem refresh_locked_section_safe :
    Agd.ECS.Refresh.progSafe [.lock, .swap, .clear, .clear, .unlock] = true ∧
    Agd.ECS.Refresh.progSafe [.lock, .clear, .swap, .clear, .unlock] = true ∧
    Agd.ECS.Refresh.progSafe [.lock, .clear, .clear, .swap, .unlock] = true ∧
    Agd.ECS.Refresh.progSafe Agd.ECS.Refresh.codeProg = true := by decide

/-- **refresh_failure_keeps.**  If reading a file or rebuilding the maps fails, the `File` is returned as
it was (old readers) and neither the lock is taken nor a cache cleared. -/
theorem refresh_failure_keeps (f : S_geoip_File) (ctx : Option String) (o1 o2 : Option String × Option String)
    (o3 : Option String) (h : o1.2.isSome ∨ o2.2.isSome ∨ o3.isSome) :
    (File_Refresh f ctx o1 o2 o3).1 = f ∧ (File_Refresh f ctx o1 o2 o3).2.1.isSome ∧
      lockActs (File_Refresh f ctx o1 o2 o3).2.2 = [] := by
  cases h1 : o1.2 <;> cases h2 : o2.2 <;> cases h3 : o3 <;>
    simp_all [File_Refresh, lockActs]

/-- **data_hit_no_lock.**  A cache hit returns the cached item without taking the lock or asking the
readers. -/
theorem data_hit_no_lock (f : S_geoip_File) (host ip : String) (hip : ip ≠ "") (dbh item : Option S_geoip_Location)
    (is4in6 : Bool) (a4 : String) (key : Option String) (la : Int × Option String) (sc : Option String) :
    (File_Data f host ip dbh is4in6 a4 key (item, true) la sc).1 = item ∧
      (names (File_Data f host ip dbh is4in6 a4 key (item, true) la sc).2.2).filter
        (fun n => n == "RLock" || n == "lookupASN" || n == "setCtry" || n == "setCaches") = [] := by
  cases is4in6 <;> simp [File_Data, hip, names]

/-- **data_miss_locked.**  A miss: `Get` first, outside the lock; then `RLock`, `lookupASN`, `setCtry`,
`setCaches`, `RUnlock` in this order — the result is stored before the read lock is released, on both
paths (plain address, IPv4-mapped address). -/
theorem data_miss_locked (f : S_geoip_File) (host ip : String) (hip : ip ≠ "") (dbh item : Option S_geoip_Location)
    (is4in6 : Bool) (a4 : String) (key : Option String) (asn : Int) :
    (names (File_Data f host ip dbh is4in6 a4 key (item, false) (asn, none) none).2.2).dropWhile (fun n => !(n == "Get")) =
      ["Get", "Inc", "RLock", "lookupASN", "setCtry", "setCaches", "RUnlock"] := by
  cases is4in6 <;> simp [File_Data, hip, names]

/-- **data_error_unlocks.**  A failing look-up releases the read lock and stores nothing. -/
theorem data_error_unlocks (f : S_geoip_File) (host ip : String) (hip : ip ≠ "") (dbh item : Option S_geoip_Location)
    (is4in6 : Bool) (a4 : String) (key : Option String) (la : Int × Option String) (sc : Option String)
    (h : la.2.isSome ∨ sc.isSome) :
    (names (File_Data f host ip dbh is4in6 a4 key (item, false) la sc).2.2).getLast? = some "RUnlock" ∧
      "setCaches" ∉ names (File_Data f host ip dbh is4in6 a4 key (item, false) la sc).2.2 := by
  cases is4in6 <;> cases h1 : la.2 <;> cases h2 : sc <;> simp_all [File_Data, names]

example : lockActs (File_Refresh ⟨none, none, none, some "mu", some "asn0", some "ctry0", none, none, none, none,
    some "ipc", some "hc", "a.mmdb", "c.mmdb"⟩ none (some "asn1", none) (some "ctry1", none) none).2.2 =
    [.lock, .clear, .clear, .unlock] := by decide
example : (File_Refresh ⟨none, none, none, some "mu", some "asn0", some "ctry0", none, none, none, none,
    some "ipc", some "hc", "a.mmdb", "c.mmdb"⟩ none (some "asn1", none) (none, some "boom") none).1.asn = some "asn0" := by
  decide


/-! ## Non-vacuity of the hypotheses -/

/-- A request from a client located in "US"/AS 15169 with a valid non-zero ECS option located in "DE". -/
def ri0 : S_agd_RequestInfo :=
  { DeviceResult := none, Location := some ⟨"US", "NA", "", 15169⟩,
    ECS := some ⟨some ⟨"DE", "EU", "BE", 3320⟩, "192.0.2.0/24", 0⟩,
    FilteringGroup := none, Messages := none, ServerGroup := none, RemoteIP := "198.51.100.7", Server := "",
    Host := "example.org", ID := "", QType := 1, QClass := 1, Proto := 0 }

example : locFromReq (some ri0) = some (some ⟨"DE", "", "BE", 3320⟩) := by decide
example : ri0.ECS = none ∨ (24 : Int) ≠ 0 := by decide
example : ∃ cn : String → Nat, ∀ s, cn s = 0 ↔ s = "" := ⟨fun s => if s = "" then 0 else 1, by intro s; by_cases h : s = "" <;> simp [h]⟩
example : (ecsFamFromReq (some ri0) "192.0.2.0" true) = some (1, [("Addr", ["192.0.2.0/24"]), ("Is4", ["192.0.2.0"])]) := by decide
example : ({ host := "h", subnet := "s", qType := 1, qClass := 1, reqDO := false, isECSDeclined := true } : S_ecscache_cacheRequest).isECSDeclined = true := rfl

end Agd.Tie.TrC05
