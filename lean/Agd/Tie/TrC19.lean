import Agd.Gen.TrC19
import Agd.Model.LinkIP
/-!
# C19: the link-IP proxy's decision code, as translated from the source

`Agd.Gen.TrC19.*` are regenerated from `internal/websvc/linkip.go` on every run (`extract/tr.go`):
`shouldProxy`, `shouldProxyGet`, `shouldProxyPost` (slices are lists, an index out of range is `none`,
the `for … range` loop is `goRange`, `strings.TrimPrefix` / `strings.SplitN` are the prelude's
`goTrimPrefix` / `goSplitN` on `String`), `linkedIPProxy.ServeHTTP`, and the `Rewrite` /
`ModifyResponse` closures of `linkedIPHandler` as *traces* of the library calls they make (header
`Del` / `Set`, `netutil.SplitHost`, `httpProxy.ServeHTTP`, …) with their scalar arguments.

* `shouldProxy_tr`: for ALL methods and paths the translated `shouldProxy` does not panic and equals
  the hand model `Agd.LinkIP.shouldProxy` on the characters of the same strings — so every theorem of
  `Props/C19` about `shouldProxy` is a theorem about the source as translated.
* `serve_*`, `rewrite_*`: the property's clauses stated on the translated handler itself.
-/
set_option linter.unusedSimpArgs false
namespace Agd.Tie.TrC19
open Agd.TrPrelude Agd.LinkIP

theorem translation_complete : Gen.TrC19.translationFailures = [] := by decide

/-! ## the prelude's string functions and the model's -/
theorem ofList_eq_iff (l : List Char) (s : String) : String.ofList l = s ↔ l = s.toList := by
  constructor
  · intro h; rw [← h, String.toList_ofList]
  · intro h; rw [h, String.ofList_toList]

/-- `strings.TrimPrefix(s, "/")` of the prelude = the model's `trimSlash`. -/
theorem trimPrefix_slash (s : String) : (goTrimPrefix s "/").toList = trimSlash s.toList := by
  have h1 : "/".toList = ['/'] := by decide
  unfold goTrimPrefix
  rw [h1]
  cases h : s.toList with
  | nil => simp [trimSlash, List.isPrefixOf, h]
  | cons c r =>
    by_cases hc : c = '/'
    · subst hc; simp [trimSlash, String.toList_ofList]
    · have : ('/' == c) = false := by simpa using fun h => hc h.symm
      simp [List.isPrefixOf, this, h]
      unfold trimSlash
      split
      · simp_all
      · rfl

theorem cutList_slash (l : List Char) : cutList ['/'] l = cut l := by
  induction l with
  | nil => simp [cutList, cut]
  | cons c r ih =>
    unfold cutList cut
    by_cases hc : c = '/'
    · subst hc; simp [List.isPrefixOf]
    · have : ('/' == c) = false := by simpa using fun h => hc h.symm
      simp only [List.isPrefixOf, this, Bool.false_and, hc, ↓reduceIte, ih]
      cases cut r <;> simp

theorem cut_shorter {l a b : List Char} (h : cut l = some (a, b)) : b.length < l.length := by
  induction l generalizing a b with
  | nil => simp [cut] at h
  | cons c r ih =>
    unfold cut at h
    split at h
    · simp at h; simp [← h.2]
    · split at h
      · simp at h
      · rename_i ab hab
        simp at h
        have := ih (a := ab.1) (b := ab.2) (by rw [hab])
        simp [← h.2]; omega

theorem splitListN_slash (fuel n : Nat) (l : List Char) (hn : 1 ≤ n) (hf : l.length < fuel) :
    splitListN ['/'] fuel (n : Int) l = splitN n l := by
  induction fuel generalizing n l with
  | zero => omega
  | succ f ih =>
    match n, hn with
    | 1, _ => simp [splitListN, splitN]
    | k + 2, _ =>
      have h1 : (((k + 2 : Nat) : Int) = 1) = False := by simp; omega
      have h2 : ((k + 2 : Nat) : Int) - 1 = ((k + 1 : Nat) : Int) := by omega
      simp only [splitListN, splitN, h1, ↓reduceIte, cutList_slash, h2]
      cases hc : cut l with
      | none => rfl
      | some ab =>
        obtain ⟨a, b⟩ := ab
        have := cut_shorter hc
        simp only
        rw [ih (k + 1) b (by omega) (by omega)]

/-- `strings.SplitN(s, "/", n)` of the prelude = the model's `splitN`, for every positive `n`. -/
theorem splitN_slash (s : String) (n : Nat) (hn : 1 ≤ n) :
    goSplitN s "/" (n : Int) = (splitN n s.toList).map String.ofList := by
  have h1 : "/".toList = ['/'] := by decide
  have h0 : ((n : Int) = 0) = False := by simp; omega
  unfold goSplitN
  rw [h1]
  simp only [h0, ↓reduceIte]
  rw [splitListN_slash _ n _ hn (by omega)]


/-! ## indexing and the range loop -/

theorem goIndex_nat {α : Type} (xs : List α) (n : Nat) : goIndex? xs (n : Int) = xs[n]? := by
  unfold goIndex?
  have : ¬ ((n : Int) < 0) := by omega
  simp [this]

/-- A loop whose body only returns `false` at the first element satisfying `q` and otherwise goes on
is `List.any q`. -/
theorem goRange_any {α : Type} (xs : List α) (q : α → Bool) :
    goRange (σ := Unit) (ρ := Bool) xs () (fun _ _ x => if q x then .ret false else .next ()) =
      if xs.any q then .inr false else .inl () := by
  unfold goRange
  generalize (0 : Int) = i
  induction xs generalizing i with
  | nil => simp [goRangeFrom]
  | cons x r ih =>
    unfold goRangeFrom
    cases hq : q x <;> simp [ih, hq]

/-! ## `shouldProxyGet`, `shouldProxyPost` on an arbitrary slice -/

/-- `shouldProxyGet` panics exactly on the empty slice; otherwise its value is the documented
shape test. -/
theorem shouldProxyGet_spec (parts : List String) (h : parts ≠ []) :
    Gen.TrC19.shouldProxyGet parts = some (decide (parts[0]? = some "linkip") &&
      (decide (parts.length = 3) || (decide (parts.length = 4) && decide (parts[3]? = some "status")))) := by
  match parts, h with
  | [a], _ | [a, b], _ | [a, b, c], _ | [a, b, c, d], _ =>
    by_cases ha : a = "linkip" <;> simp [Gen.TrC19.shouldProxyGet, goIndex?, ha]
  | a :: b :: c :: d :: e :: r, _ =>
    have h3 : ¬ ((r.length : Int) + 1 + 1 + 1 + 1 + 1 = 3) := by omega
    have h4 : ¬ ((r.length : Int) + 1 + 1 + 1 + 1 + 1 = 4) := by omega
    by_cases ha : a = "linkip" <;> simp [Gen.TrC19.shouldProxyGet, goIndex?, ha, h3, h4]

theorem shouldProxyGet_nil : Gen.TrC19.shouldProxyGet [] = none := by decide


/-- `shouldProxyPost` panics exactly on the empty slice; otherwise its value is the documented
shape test. -/
theorem shouldProxyPost_spec (parts : List String) (h : parts ≠ []) :
    Gen.TrC19.shouldProxyPost parts = some ((decide (parts[0]? = some "ddns") && decide (parts.length = 4)) ||
      (decide (parts[0]? = some "linkip") && decide (parts.length = 3))) := by
  match parts, h with
  | a :: r, _ =>
    have e4 : ((r.length : Int) + 1 = 4) ↔ (r.length = 3) := by omega
    have e3 : ((r.length : Int) + 1 = 3) ↔ (r.length = 2) := by omega
    by_cases h1 : a = "ddns" <;> by_cases h2 : a = "linkip" <;> by_cases h3 : r.length = 3 <;>
      by_cases h4 : r.length = 2 <;> simp_all [Gen.TrC19.shouldProxyPost, goIndex?]

theorem shouldProxyPost_nil : Gen.TrC19.shouldProxyPost [] = none := by decide


/-! ## `shouldProxy` -/

theorem any_ext {α : Type} (xs : List α) (f g : α → Bool) (h : ∀ x, f x = g x) : xs.any f = xs.any g := by
  have : f = g := funext h
  rw [this]

/-- a `.` or `..` segment -/
def dotSeg (s : String) : Bool := decide (s = ".") || decide (s = "..")
/-- `linkip/{id}/{enc}` or `linkip/{id}/{enc}/status` -/
def getShape (parts : List String) : Bool :=
  decide (parts[0]? = some "linkip") &&
    (decide (parts.length = 3) || (decide (parts.length = 4) && decide (parts[3]? = some "status")))
/-- `ddns/{id}/{enc}/{domain}` or `linkip/{id}/{enc}` -/
def postShape (parts : List String) : Bool :=
  (decide (parts[0]? = some "ddns") && decide (parts.length = 4)) ||
    (decide (parts[0]? = some "linkip") && decide (parts.length = 3))

/-- The segments `shouldProxy` looks at. -/
def partsOf (p : String) : List String := goSplitN (goTrimPrefix p "/") "/" (5 : Int)

/-- The translated `shouldProxy` never panics, for any method and path, and its verdict in closed
form: 3 or 4 segments, none of them `.`/`..`, and the GET resp. POST shape. -/
theorem shouldProxy_spec (m p : String) :
    Gen.TrC19.shouldProxy m p = some (
      decide (3 ≤ (partsOf p).length ∧ (partsOf p).length ≤ 4) && !(partsOf p).any dotSeg &&
        ((decide (m = "GET") && getShape (partsOf p)) || (decide (m = "POST") && postShape (partsOf p)))) := by
  unfold Gen.TrC19.shouldProxy partsOf
  generalize goSplitN (goTrimPrefix p "/") "/" (5 : Int) = parts
  simp only [goRange_any]
  generalize hd : List.any parts _ = d
  have hd' : parts.any dotSeg = d := by
    rw [← hd]; apply any_ext; intro x
    show (decide (x = ".") || decide (x = "..")) = _
    cases decide (x = ".") <;> cases decide (x = "..") <;> rfl
  rw [hd']
  by_cases hl : 3 ≤ parts.length ∧ parts.length ≤ 4
  · have hne : parts ≠ [] := by intro h; simp [h] at hl
    have h1 : ¬ ((parts.length : Int) < 3) := by omega
    have h2 : ¬ ((parts.length : Int) > 4) := by omega
    simp only [h1, h2, hl, shouldProxyGet_spec _ hne, shouldProxyPost_spec _ hne, getShape, postShape]
    cases d <;> by_cases hG : m = "GET" <;> by_cases hP : m = "POST" <;> simp [hG, hP]
    all_goals simp_all
  · have h1 : ((parts.length : Int) < 3) ∨ ((parts.length : Int) > 4) := by omega
    rcases h1 with h1 | h1 <;> simp [h1, hl]


/-! ## the hand model -/

theorem parts_tr (p : String) :
    goSplitN (goTrimPrefix p "/") "/" (5 : Int) = (splitN 5 (trimSlash p.toList)).map String.ofList := by
  rw [show (5 : Int) = ((5 : Nat) : Int) from rfl, splitN_slash _ 5 (by omega), trimPrefix_slash]

theorem dec_beq {α : Type} [BEq α] [LawfulBEq α] [DecidableEq α] (a b : α) : decide (a = b) = (a == b) := by
  by_cases h : a = b <;> simp [h]

theorem idx_map (P : List Str) (i : Nat) (s : String) :
    decide ((P.map String.ofList)[i]? = some s) = (P[i]? == some s.toList) := by
  rw [List.getElem?_map]
  cases P[i]? with
  | none => simp
  | some v => by_cases h : v = s.toList <;> simp [ofList_eq_iff, h]

theorem getShape_map (P : List Str) : getShape (P.map String.ofList) = Agd.LinkIP.shouldProxyGet P := by
  simp only [getShape, Agd.LinkIP.shouldProxyGet, idx_map, List.length_map]
  rw [show "linkip".toList = sLinkip from by decide, show "status".toList = sStatus from by decide]
  simp only [dec_beq]

theorem postShape_map (P : List Str) : postShape (P.map String.ofList) = Agd.LinkIP.shouldProxyPost P := by
  simp only [postShape, Agd.LinkIP.shouldProxyPost, idx_map, List.length_map]
  rw [show "linkip".toList = sLinkip from by decide, show "ddns".toList = sDdns from by decide]
  simp only [dec_beq]

theorem dotSeg_map (P : List Str) : (P.map String.ofList).any dotSeg = P.any isDot := by
  rw [List.any_map]; apply any_ext; intro x
  simp only [Function.comp, dotSeg, isDot, ofList_eq_iff]
  rw [show ".".toList = sDot from by decide, show "..".toList = sDotDot from by decide]
  simp only [dec_beq]

/-- For ALL methods and paths the translated `shouldProxy` does not panic and returns what the
hand model `Agd.LinkIP.shouldProxy` (the function every C19 theorem is about) returns on the
characters of the same strings. -/
theorem shouldProxy_tr (m p : String) :
    Gen.TrC19.shouldProxy m p = some (Agd.LinkIP.shouldProxy m.toList p.toList) := by
  rw [shouldProxy_spec]
  congr 1
  have hG : decide (m = "GET") = decide (m.toList = mGET) :=
    decide_eq_decide.mpr (by rw [String.ext_iff]; rfl)
  have hP : decide (m = "POST") = decide (m.toList = mPOST) :=
    decide_eq_decide.mpr (by rw [String.ext_iff]; rfl)
  simp only [partsOf, parts_tr, getShape_map, postShape_map, dotSeg_map, List.length_map, hG, hP,
    Agd.LinkIP.shouldProxy, shouldProxyV, Variant.fixed]
  generalize splitN 5 (trimSlash p.toList) = P
  have hgp : ¬ (mGET = mPOST) := by decide
  by_cases hl : 3 ≤ P.length ∧ P.length ≤ 4
  · have h3 : ¬ (P.length < 3) := by omega
    have h4 : ¬ (P.length > 4) := by omega
    by_cases hg : m.toList = mGET <;> by_cases hp : m.toList = mPOST <;>
      cases hd : P.any isDot <;> simp_all
  · have h : P.length < 3 ∨ P.length > 4 := by omega
    rcases h with h | h <;> simp [h, hl]

theorem shouldProxy_total (m p : String) : Gen.TrC19.shouldProxy m p ≠ none := by
  rw [shouldProxy_tr]; simp


/-! ## `linkedIPProxy.ServeHTTP`: which calls happen, in which order, with which arguments

Opaque: `agdhttp.UserAgent()` (`ua`), the request's method / path / peer address, the result of
`netutil.SplitHost` (`sh`), `err.Error()` (`et`), `reqID.String()` (`rid`).  The trace names a
method call by its last selector (`Set`, `Del`, `ServeHTTP`, …), not by its receiver. -/

abbrev Trace := List (String × List String)

def names (tr : Trace) : List String := tr.map (·.1)
/-- the header operations (`Del` / `Set`) of a trace that name header `h` -/
def opsOn (h : String) (tr : Trace) : Trace :=
  tr.filter fun e => (e.1 == "Del" || e.1 == "Set") && e.2.head? == some h
/-- the part of a trace before the reverse proxy is invoked -/
def beforeProxy (tr : Trace) : Trace := tr.takeWhile fun e => e.1 != "ServeHTTP"

section serve
variable (prx : Gen.TrC19.S_websvc_linkedIPProxy) (ua m p ra : String) (sh : String × Option String) (et rid : String)
/- `p2` is the value of `r.URL.Path` when it is read a second time (for the robots test), after the
header calls: the translator re-reads values of abstract objects after opaque calls. -/
variable (p2 : String)

/-- `ServeHTTP` never panics. -/
theorem serve_total : Gen.TrC19.serveHTTP prx ua m p ra sh et rid p2 ≠ none := by
  unfold Gen.TrC19.serveHTTP
  simp only [shouldProxy_tr]
  generalize Agd.LinkIP.shouldProxy m.toList p.toList = b
  repeat' split
  all_goals simp

/-- The backend (`httpProxy.ServeHTTP`) is contacted exactly when the hand model's `shouldProxy`
accepts method and path (hence only for the four documented shapes, `Props/C19`) and the peer
address could be split. -/
theorem serve_contacts_backend_iff :
    ∃ tr, Gen.TrC19.serveHTTP prx ua m p ra sh et rid p2 = some tr ∧
      ("ServeHTTP" ∈ names tr ↔ (Agd.LinkIP.shouldProxy m.toList p.toList = true ∧ sh.2 = none)) := by
  unfold Gen.TrC19.serveHTTP
  simp only [shouldProxy_tr]
  generalize Agd.LinkIP.shouldProxy m.toList p.toList = b
  cases b <;> cases h : sh.2 <;> by_cases hr : p2 = "/robots.txt" <;> simp [names, h, hr]

/-- Everything else is answered locally: no header is touched, the peer address is not even
looked at, and the last call is the robots file for `/robots.txt` and `http.NotFound` otherwise. -/
theorem serve_local (h : Agd.LinkIP.shouldProxy m.toList p.toList = false) :
    ∃ tr, Gen.TrC19.serveHTTP prx ua m p ra sh et rid p2 = some tr ∧
      "ServeHTTP" ∉ names tr ∧ "SplitHost" ∉ names tr ∧ "Del" ∉ names tr ∧
      (names tr).getLast? = some (if p2 = "/robots.txt" then "serveRobotsDisallow" else "NotFound") := by
  unfold Gen.TrC19.serveHTTP
  simp only [shouldProxy_tr, h]
  by_cases hr : p2 = "/robots.txt" <;> simp [names, hr]

/-- A forwarded request: before the proxy is invoked each of the four client-supplied forwarding
headers is deleted (and not set again), `netutil.SplitHost` is called with the connection's peer
address, the only operation on `X-Connecting-Ip` is `Set` to the host `SplitHost` returned, and
invoking the proxy is the last call. -/
theorem serve_scrubs_then_sets_peer (h : Agd.LinkIP.shouldProxy m.toList p.toList = true) (hs : sh.2 = none) :
    ∃ tr, Gen.TrC19.serveHTTP prx ua m p ra sh et rid p2 = some tr ∧
      (∀ hd ∈ ["Cf-Connecting-Ip", "Forwarded", "True-Client-Ip", "X-Real-Ip"],
        opsOn hd (beforeProxy tr) = [("Del", [hd])]) ∧
      ("SplitHost", [ra]) ∈ beforeProxy tr ∧
      opsOn "X-Connecting-Ip" (beforeProxy tr) = [("Set", ["X-Connecting-Ip", sh.1])] ∧
      opsOn "X-Request-Id" (beforeProxy tr) = [("Set", ["X-Request-Id", rid])] ∧
      (names tr).getLast? = some "ServeHTTP" := by
  unfold Gen.TrC19.serveHTTP
  simp only [shouldProxy_tr, h, hs]
  simp [names, opsOn, beforeProxy, List.takeWhile, List.filter]

/-- A peer address that cannot be split: 500 with the error's text, the backend is not contacted. -/
theorem serve_bad_peer_500 (h : Agd.LinkIP.shouldProxy m.toList p.toList = true) (hs : sh.2 ≠ none) :
    ∃ tr, Gen.TrC19.serveHTTP prx ua m p ra sh et rid p2 = some tr ∧
      "ServeHTTP" ∉ names tr ∧ tr.getLast? = some ("Error", ["_", et, "500"]) := by
  unfold Gen.TrC19.serveHTTP
  simp only [shouldProxy_tr, h]
  cases h2 : sh.2 with
  | none => exact absurd h2 hs
  | some e =>
    have h500 : toString (500 : Int) = "500" := by decide
    simp [names, h500]

end serve


/-- The hand model's `serve` (the function the C19 theorems are about) answers with the class the
translated handler's last call shows, for every request, provided the opaque `SplitHost` result
fails exactly when the model's `splitHost` does. -/
theorem serve_class_tr (e : Env) (r : Req) (prx : Gen.TrC19.S_websvc_linkedIPProxy) (ua : String)
    (sh : String × Option String) (et rid : String) (hsh : sh.2 = none ↔ (splitHost r.remote).isSome) :
    ∃ tr, Gen.TrC19.serveHTTP prx ua (String.ofList r.method) (String.ofList r.path) (String.ofList r.remote)
        sh et rid (String.ofList r.path) = some tr ∧
      (names tr).getLast? = some (match serve e r with
        | .notFound => "NotFound" | .robots => "serveRobotsDisallow" | .err500 => "Error"
        | .proxyErr => "ServeHTTP" | .proxied _ _ => "ServeHTTP") := by
  unfold Gen.TrC19.serveHTTP
  simp only [shouldProxy_tr, String.toList_ofList, serve, serveV]
  have hrob : (String.ofList r.path = "/robots.txt") = (r.path = robotsPath) := by
    rw [ofList_eq_iff]; rfl
  simp only [hrob, Agd.LinkIP.shouldProxy]
  generalize shouldProxyV Variant.fixed r.method r.path = b
  cases b
  · by_cases hr : r.path = robotsPath <;> simp [names, hr]
  · cases h2 : sh.2 with
    | none =>
      obtain ⟨ip, hip⟩ := Option.isSome_iff_exists.mp (hsh.mp h2)
      simp only [hip]
      generalize isPrint _ = pr
      cases pr <;> simp [names]
    | some x =>
      have : splitHost r.remote = none := by
        cases h : splitHost r.remote with
        | none => rfl
        | some v => have := hsh.mpr (by simp [h]); simp [h2] at this
      simp [names, this]

/-! ## the `Rewrite` closure of `linkedIPHandler` and `ModifyResponse` -/

/-- `Rewrite`: the target URL is set first and `Out.Host` after it, to the configured host; every
header read from the inbound request (`In.Header.Get`) is set on the outbound request under the same
name with the value read, and these are `X-Connecting-Ip` and `X-Request-Id`; `X-Connecting-Ip` is
touched by no other operation; the user agent is ours; the only deletions are the last two
operations, `Del Connection` and `Del Upgrade` (third `fix:` commit: no protocol switch is passed on
to the backend), and nothing sets these two headers.  (`g1`, `g2` are the results of the first and
second `Get`.) -/
theorem rewrite_resets_proxy_headers (host ua g1 g2 : String) :
    let tr := Gen.TrC19.rewrite host ua g1 g2
    let gets := (tr.filter (·.1 == "Get")).map (·.2)
    (names tr).idxOf "SetURL" < (names tr).idxOf "Host=" ∧ ("Host=", [host]) ∈ tr ∧
    gets.length = 2 ∧ (∀ (i : Nat) (n : String), gets[i]? = some [n] → ("Set", [n, [g1, g2][i]!]) ∈ tr) ∧
    ["X-Connecting-Ip"] ∈ gets ∧ ["X-Request-Id"] ∈ gets ∧
    (opsOn "X-Connecting-Ip" tr).length = 1 ∧ ("Set", ["User-Agent", ua]) ∈ tr ∧
    tr.filter (·.1 == "Del") = [("Del", ["Connection"]), ("Del", ["Upgrade"])] ∧
    tr.drop (tr.length - 2) = [("Del", ["Connection"]), ("Del", ["Upgrade"])] ∧
    opsOn "Connection" tr = [("Del", ["Connection"])] ∧ opsOn "Upgrade" tr = [("Del", ["Upgrade"])] := by
  unfold Gen.TrC19.rewrite
  simp only [names, opsOn]
  refine ⟨by simp [List.idxOf, List.findIdx, List.findIdx.go], by simp, by simp, ?_, by simp, by simp, by simp, by simp,
    by simp, by simp, by simp, by simp⟩
  intro i n
  match i with
  | 0 => simp; intro h; simp [← h]
  | 1 => simp; intro h; simp [← h]
  | k + 2 => simp

/-- `ModifyResponse` never fails, deletes the upstream's `Server` header and allows any origin. -/
theorem modifyResponse_ok :
    Gen.TrC19.modifyResponse.1 = none ∧ opsOn "Server" Gen.TrC19.modifyResponse.2 = [("Del", ["Server"])] ∧
      ("Set", ["Access-Control-Allow-Origin", "*"]) ∈ Gen.TrC19.modifyResponse.2 := by
  decide

/-! ## concrete instances (tests, and non-vacuity of the hypotheses above) -/

example : Gen.TrC19.shouldProxy "GET" "/linkip/dev/enc/status" = some true := by
  rw [shouldProxy_tr]; decide
example : Gen.TrC19.shouldProxy "POST" "/ddns/dev/enc/example.org" = some true := by
  rw [shouldProxy_tr]; decide
example : Gen.TrC19.shouldProxy "GET" "/linkip/../status" = some false := by
  rw [shouldProxy_tr]; decide
example : Gen.TrC19.shouldProxy "PUT" "/linkip/dev/enc" = some false := by
  rw [shouldProxy_tr]; decide
example : Gen.TrC19.shouldProxy "GET" "" = some false := by
  rw [shouldProxy_tr]; decide
example : Agd.LinkIP.shouldProxy "POST".toList "/linkip/dev/enc".toList = true := by decide
example : Agd.LinkIP.shouldProxy "GET".toList "/robots.txt".toList = false := by decide

end Agd.Tie.TrC19
