import Agd.Gen.TrC03
import Agd.Model.Device
/-!
# C03: the device finder's decision code, as translated from the source

`Agd.Gen.TrC03.*` are regenerated from `internal/dnssvc/internal/devicefinder/*.go` (and
`dnsserver.Protocol.IsStdEncrypted`) on every run by `extract/tr.go`.  Library and database calls are
parameters: Boolean / tuple results (`o<k>_…`), nil-ness of abstract pointers (`e<k>_… : AbsPtr`) and,
for the callees listed under `"fn"`, *functions* `f_<callee>` applied to the translated arguments, so
which string is parsed, lower-cased or looked up is part of the translated meaning.  The theorems are
stated on the translated code for all values of these parameters; where `Agd.Model.Device` has a
counterpart the two are proved equal.
-/
namespace Agd.Tie.TrC03
open Agd.Gen.TrC03 Agd.TrPrelude
open Agd.Device (Proto)

theorem translation_complete : translationFailures = [] := by decide

/-! ## Transports -/

/-- The numbers of `dnsserver.Protocol` (the translated code compares against them). -/
def protoNum : Proto → Int
  | .invalid => 0 | .dns => 8 | .dnscrypt => 9 | .doh => 3 | .doq => 4 | .dot => 5

/-- `supportsDeviceID` = the model's, for every protocol. -/
theorem supportsDeviceID_tr (p : Proto) : supportsDeviceID (protoNum p) = Agd.Device.supportsDeviceID p := by
  cases p <;> rfl

/-- Exactly plain DNS, DoH, DoQ and DoT have a device channel; every other protocol number (DNSCrypt
is 9) makes `Find` return nil at once. -/
theorem supportsDeviceID_iff (p : Int) : supportsDeviceID p = true ↔ p = 8 ∨ p = 3 ∨ p = 4 ∨ p = 5 := by
  simp [supportsDeviceID]; omega

theorem dnscrypt_unsupported : supportsDeviceID (protoNum .dnscrypt) = false := by decide

/-- `Protocol.IsStdEncrypted` = the model's. -/
theorem isStdEncrypted_tr (p : Proto) : Protocol_IsStdEncrypted (protoNum p) = p.isStdEncrypted := by
  cases p <;> rfl

/-! ## `authenticate` -/

def errText : Agd.Device.AuthErr → String
  | .notDoH => "not doh"
  | .noUserinfo => "no userinfo"
  | .noPassword => "no password"
  | .failed => "basic authentication failed"

/-- The translated `authenticate` is the model's decision table, for every server, device, request
and password check: `userinfo != nil` is `rq.userinfo.isSome`, `Password()`'s second result is "a
password is present", `PasswordHash.Authenticate` is the device's `check` on that password. -/
theorem authenticate_tr (f : S_devicefinder_Default) (ri : Option S_dnsserver_RequestInfo) (srv : S_agd_Server)
    (d : S_agd_Device) (conf : S_agd_AuthSettings) (s : Agd.Device.Srv) (rq : Agd.Device.Req)
    (md : Agd.Device.Device) (pwText : String)
    (hsrv : f.srv = some srv) (hp : srv.Protocol = protoNum s.proto) (hd : d.Auth = some conf)
    (he : conf.Enabled = md.auth.enabled) (ho : conf.DoHAuthOnly = md.auth.dohOnly) :
    Default_authenticate f ri (some d) rq.userinfo.isSome (pwText, (rq.userinfo.bind (·.2)).isSome)
        ((rq.userinfo.bind (·.2)).elim false md.auth.check)
      = some ((Agd.Device.authenticate s rq md).map errText) := by
  unfold Default_authenticate Agd.Device.authenticate
  rcases hu : rq.userinfo with _ | ⟨u, _ | pw⟩ <;>
    cases hpr : s.proto <;> cases hen : md.auth.enabled <;> cases hdo : md.auth.dohOnly <;>
    simp_all [protoNum, errText] <;>
    cases hc : md.auth.check pw <;> simp [errText]

example : Agd.Device.authenticate ⟨.doh, false, [], []⟩ ⟨some ("d1".toList, some "x".toList), [], [], none, "", 0, ""⟩
    { id := "d1".toList, auth := ⟨true, false, fun p => p = "pw".toList⟩ } = some .failed := by decide

/-- Stated on the translated code: authentication succeeds exactly in the four documented cases. -/
theorem authenticate_accepts_iff (f : S_devicefinder_Default) (ri : Option S_dnsserver_RequestInfo) (srv : S_agd_Server)
    (d : S_agd_Device) (conf : S_agd_AuthSettings) (ui : AbsPtr) (pw : String × Bool) (ok : Bool)
    (hsrv : f.srv = some srv) (hd : d.Auth = some conf) :
    Default_authenticate f ri (some d) ui pw ok = some none ↔
      (conf.Enabled = false ∨ (srv.Protocol ≠ 3 ∧ conf.DoHAuthOnly = false) ∨
       (srv.Protocol = 3 ∧ ui = false ∧ conf.DoHAuthOnly = false) ∨
       (srv.Protocol = 3 ∧ ui = true ∧ pw.2 = true ∧ ok = true)) := by
  unfold Default_authenticate
  by_cases h3 : srv.Protocol = 3 <;> cases he : conf.Enabled <;> cases ho : conf.DoHAuthOnly <;>
    cases ui <;> cases h2 : pw.2 <;> cases ok <;> simp_all

/-- A device that requires DoH-only authentication is refused on every other transport and on DoH
without userinfo — whatever the password check would say. -/
theorem dohOnly_never_elsewhere (f : S_devicefinder_Default) (ri : Option S_dnsserver_RequestInfo) (srv : S_agd_Server)
    (d : S_agd_Device) (conf : S_agd_AuthSettings) (ui : AbsPtr) (pw : String × Bool) (ok : Bool)
    (hsrv : f.srv = some srv) (hd : d.Auth = some conf) (he : conf.Enabled = true) (ho : conf.DoHAuthOnly = true)
    (h : srv.Protocol ≠ 3 ∨ ui = false) :
    Default_authenticate f ri (some d) ui pw ok =
      some (some (if srv.Protocol ≠ 3 then "not doh" else "no userinfo")) := by
  unfold Default_authenticate
  by_cases h3 : srv.Protocol = 3 <;> simp_all

/-- With authentication enabled, userinfo without a password or with a password the hash rejects is
an authentication failure. -/
theorem bad_password_refused (f : S_devicefinder_Default) (ri : Option S_dnsserver_RequestInfo) (srv : S_agd_Server)
    (d : S_agd_Device) (conf : S_agd_AuthSettings) (pw : String × Bool) (ok : Bool)
    (hsrv : f.srv = some srv) (hd : d.Auth = some conf) (he : conf.Enabled = true) (hp : srv.Protocol = 3)
    (h : pw.2 = false ∨ ok = false) :
    Default_authenticate f ri (some d) true pw ok =
      some (some (if pw.2 = false then "no password" else "basic authentication failed")) := by
  unfold Default_authenticate
  cases h2 : pw.2 <;> simp_all

/-- `authenticate` dereferences `dev`, `dev.Auth` and (only when authentication is enabled) `f.srv`:
with these non-nil it never panics. -/
theorem authenticate_no_panic (f : S_devicefinder_Default) (ri : Option S_dnsserver_RequestInfo)
    (d : S_agd_Device) (conf : S_agd_AuthSettings) (ui : AbsPtr) (pw : String × Bool) (ok : Bool)
    (hd : d.Auth = some conf) (hs : conf.Enabled = true → f.srv ≠ none) :
    Default_authenticate f ri (some d) ui pw ok ≠ none := by
  unfold Default_authenticate
  cases he : conf.Enabled
  · simp [hd, he]
  · obtain ⟨srv, hsrv⟩ := Option.ne_none_iff_exists'.mp (hs he)
    by_cases h3 : srv.Protocol = 3 <;> cases ho : conf.DoHAuthOnly <;> cases ui <;> cases h2 : pw.2 <;>
      cases ok <;> simp_all

/-- … and a device without auth settings is a nil dereference. -/
example (f : S_devicefinder_Default) : Default_authenticate f none (some ⟨none, "d", "", "", true⟩) true ("", true) true = none := rfl

/-! ## `deviceData`: which channel is read on which transport -/

/-- Plain DNS (any transport that is not DoH/DoQ/DoT): the identifier is the EDNS one and nothing
else — never an extended human ID, and nothing of the server request info (URL, userinfo, TLS server
name) has any influence.  (Arguments are passed by name: their order follows the source.) -/
theorem deviceData_plain_only_edns (f : S_devicefinder_Default) (srv : S_agd_Server) (ri : Option S_dnsserver_RequestInfo)
    (sri : Option S_dnsserver_RequestInfo → String × Option S_devicefinder_extHumanID × Option String)
    (edns : String × Option String) (hsrv : f.srv = some srv)
    (hp : ¬ (srv.Protocol = 3 ∨ srv.Protocol = 4 ∨ srv.Protocol = 5)) :
    Default_deviceData f ri (f_deviceDataFromSrvReqInfo := sri) (f_deviceIDFromEDNS := edns) =
      some (edns.1, none, edns.2) := by
  have h : Protocol_IsStdEncrypted srv.Protocol = false := by
    simp only [Protocol_IsStdEncrypted]; simp; omega
  simp [Default_deviceData, hsrv, h]

/-- DoH / DoQ / DoT: the data are those of the server request info; the EDNS option is ignored. -/
theorem deviceData_encrypted_ignores_edns (f : S_devicefinder_Default) (srv : S_agd_Server) (ri : Option S_dnsserver_RequestInfo)
    (sri : Option S_dnsserver_RequestInfo → String × Option S_devicefinder_extHumanID × Option String)
    (edns : String × Option String) (hsrv : f.srv = some srv)
    (hp : srv.Protocol = 3 ∨ srv.Protocol = 4 ∨ srv.Protocol = 5) :
    Default_deviceData f ri (f_deviceDataFromSrvReqInfo := sri) (f_deviceIDFromEDNS := edns) = some (sri ri) := by
  have h : Protocol_IsStdEncrypted srv.Protocol = true := by
    simp only [Protocol_IsStdEncrypted]; simp; omega
  simp [Default_deviceData, hsrv, h]

abbrev DD := String × Option S_devicefinder_extHumanID × Option String

/-- Device data with the error reduced to "is there one" (the text of a non-nil error is the source
text of the expression that made it; the theorems do not depend on it). -/
def noText (d : DD) : String × Option S_devicefinder_extHumanID × Bool := (d.1, d.2.1, d.2.2.isSome)

/-- DoH: data (or an error) found in the HTTP request win; the TLS server name is not consulted. -/
theorem srvReqInfo_doh_first (f : S_devicefinder_Default) (srv : S_agd_Server) (ri : Option S_dnsserver_RequestInfo)
    (doh : DD) (sni : String → DD) (hsrv : f.srv = some srv) (hp : srv.Protocol = 3)
    (h : doh.1 ≠ "" ∨ doh.2.1 ≠ none ∨ doh.2.2 ≠ none) :
    Default_deviceDataFromSrvReqInfo f ri doh sni = some doh := by
  obtain ⟨a, b, c⟩ := doh
  unfold Default_deviceDataFromSrvReqInfo
  rcases h with h | h | h
  · simp_all
  · obtain ⟨x, hx⟩ := Option.ne_none_iff_exists'.mp h; simp_all
  · obtain ⟨x, hx⟩ := Option.ne_none_iff_exists'.mp h; simp_all

/-- What the TLS-server-name step yields (both for DoT/DoQ and for DoH with nothing in the HTTP
request): nothing without device domains; otherwise the data parsed from the *request's* server name,
and a parse error is an error result without any identifier. -/
def sniStep (f : S_devicefinder_Default) (ri : Option S_dnsserver_RequestInfo) (sni : String → DD) :
    Option (String × Option S_devicefinder_extHumanID × Bool) :=
  if f.deviceDomains = [] then some ("", none, false)
  else ri.map fun r => if (sni r.TLSServerName).2.2.isSome then ("", none, true)
    else ((sni r.TLSServerName).1, (sni r.TLSServerName).2.1, false)

/-- DoT / DoQ (not DoH): whatever the DoH extraction would have produced has no influence; the
result is the server-name step's.  DoH with an empty HTTP result falls through to the same step. -/
theorem srvReqInfo_sni (f : S_devicefinder_Default) (srv : S_agd_Server) (ri : Option S_dnsserver_RequestInfo)
    (doh : DD) (sni : String → DD) (hsrv : f.srv = some srv)
    (h : srv.Protocol ≠ 3 ∨ doh = ("", none, none)) :
    (Default_deviceDataFromSrvReqInfo f ri doh sni).map noText = sniStep f ri sni := by
  unfold Default_deviceDataFromSrvReqInfo sniStep noText
  cases hdd : f.deviceDomains with
  | nil => by_cases hp : srv.Protocol = 3 <;> simp_all
  | cons d t =>
    have hl : ¬ ((t.length : Int) + 1 = 0) := by omega
    cases ri with
    | none => by_cases hp : srv.Protocol = 3 <;> simp_all
    | some r => cases hs : (sni r.TLSServerName).2.2 <;> by_cases hp : srv.Protocol = 3 <;> simp_all

/-- It panics only on a nil server, or on a nil request info when the server name is needed. -/
theorem srvReqInfo_no_panic (f : S_devicefinder_Default) (srv : S_agd_Server) (r : S_dnsserver_RequestInfo)
    (doh : DD) (sni : String → DD) (hsrv : f.srv = some srv) :
    Default_deviceDataFromSrvReqInfo f (some r) doh sni ≠ none := by
  unfold Default_deviceDataFromSrvReqInfo
  simp only [hsrv]
  by_cases hp : srv.Protocol = 3 <;> simp [hp] <;> (repeat' split) <;> simp

/-! ## DoH: userinfo before the URL path -/

/-- With userinfo the identifier is the validated *user name* and nothing else: never an extended
human ID, and the URL (its data or its error) has no influence.  An invalid user name is an error
without identifier. -/
theorem doh_userinfo_first (f : S_devicefinder_Default) (ri : Option S_dnsserver_RequestInfo) (user : String)
    (newID : String → String × Option String) (url url' : DD) :
    noText (Default_deviceDataForDoH f ri true user newID url) =
      (if (newID user).2.isSome then ("", none, true) else ((newID user).1, none, false)) ∧
    Default_deviceDataForDoH f ri true user newID url = Default_deviceDataForDoH f ri true user newID url' := by
  simp [Default_deviceDataForDoH, noText]
  split <;> simp_all

/-- Without userinfo the data are the URL path's; a path error is an error without identifier. -/
theorem doh_no_userinfo_url (f : S_devicefinder_Default) (ri : Option S_dnsserver_RequestInfo) (user : String)
    (newID : String → String × Option String) (url : DD) :
    noText (Default_deviceDataForDoH f ri false user newID url) =
      (if url.2.2.isSome then ("", none, true) else (url.1, url.2.1, false)) := by
  simp [Default_deviceDataForDoH, noText]
  split <;> simp_all

/-- `deviceDataFromDoHURL`: the identifier text is the *second* path element of a two-element path;
a one-element path carries nothing; a path error is passed on.  The index never panics, for any
result of `pathElements`. -/
theorem dohURL_structure (f : S_devicefinder_Default) (path : String) (pe : String → List String × Option String)
    (parse : String → DD) :
    Default_deviceDataFromDoHURL f path pe parse =
      some (if (pe path).2.isSome then ("", none, (pe path).2)
        else match (pe path).1 with
          | [_, e1] => parse e1
          | _ => ("", none, none)) := by
  unfold Default_deviceDataFromDoHURL
  rcases h : (pe path).1 with _ | ⟨a, _ | ⟨b, _ | ⟨c, r⟩⟩⟩ <;> simp [h, goIndex?] <;> split <;> simp
  omega

/-! ## `pathElements` -/

theorem splitListN_ne_nil (sep : List Char) (fuel : Nat) (n : Int) (s : List Char) : splitListN sep fuel n s ≠ [] := by
  cases fuel with
  | zero => simp [splitListN]
  | succ k =>
    unfold splitListN
    split
    · simp
    · split <;> simp

theorem goSplit_ne_nil (s sep : String) : goSplit s sep ≠ [] := by
  simp [goSplit, goSplitN, splitListN_ne_nil]

/-- The decision list of `pathElements` on the split path, written out (compare
`Agd.Device.pathElements`, which has the same shape on `cleanElems`). -/
def peSpec (els0 : List String) : List String × Bool :=
  match (if els0.head? = some "" then els0.tail else els0) with
  | [] => ([], true)
  | e0 :: rest =>
    if e0 = "" then ([], true)
    else if rest.length > 1 then ([], true)
    else if !(goHasSuffix "/dns-query" e0) && !(goHasSuffix "/resolve" e0) then ([], true)
    else (e0 :: rest, false)

/-- `pathElements` never panics (its `elems[0]` reads are guarded by `strings.Split` returning at
least one element and by the `l == 0` test after the re-slice) and is that decision list, for every
path and every `path.Clean`. -/
theorem pathElements_eq (p : String) (clean : String → String) :
    (pathElements p clean).map (fun r => (r.1, r.2.isSome)) = some (peSpec (goSplit (clean p) "/")) := by
  unfold pathElements peSpec
  rcases h : goSplit (clean p) "/" with _ | ⟨a, _ | ⟨b, _ | ⟨c, r⟩⟩⟩
  · exact absurd h (goSplit_ne_nil _ _)
  · by_cases ha : a = "" <;> cases hq : goHasSuffix "/dns-query" a <;> cases hr : goHasSuffix "/resolve" a <;>
      simp [ha, hq, hr, goIndex?]
  · by_cases ha : a = "" <;> by_cases hb : b = "" <;>
      cases hq : goHasSuffix "/dns-query" a <;> cases hr : goHasSuffix "/resolve" a <;>
      cases hq' : goHasSuffix "/dns-query" b <;> cases hr' : goHasSuffix "/resolve" b <;>
      simp [ha, hb, hq, hr, hq', hr', goIndex?]
  · have e3 : ((r.length : Int) + 1 + 1 + 1).toNat = r.length + 3 := by omega
    have c3 : (1 : Int) ≤ (r.length : Int) + 1 + 1 + 1 := by omega
    have n3 : ¬ ((r.length : Int) + 1 + 1 + 1 = 0) := by omega
    have g3 : (2 : Int) < (r.length : Int) + 1 + 1 + 1 := by omega
    have n2 : ¬ ((r.length : Int) + 1 + 1 = 0) := by omega
    by_cases hr : 0 < r.length
    · have g2 : (2 : Int) < (r.length : Int) + 1 + 1 := by omega
      by_cases ha : a = "" <;> by_cases hb : b = "" <;> simp [ha, hb, goIndex?, e3, c3, n3, g3, n2, g2, hr]
    · have g2 : ¬ (2 : Int) < (r.length : Int) + 1 + 1 := by omega
      by_cases ha : a = "" <;> by_cases hb : b = "" <;>
        cases hq' : goHasSuffix "/dns-query" b <;> cases hr' : goHasSuffix "/resolve" b <;>
        simp [ha, hb, hq', hr', goIndex?, e3, c3, n3, g3, n2, g2, hr]

theorem pathElements_no_panic (p : String) (clean : String → String) : pathElements p clean ≠ none := by
  intro h
  have := pathElements_eq p clean
  simp [h] at this

/-- The documented guarantee `deviceDataFromDoHURL` relies on: without error there are one or two
elements, the first is non-empty and is a suffix of `/dns-query` or `/resolve`; with an error there
are no elements. -/
theorem peSpec_ok (els0 : List String) :
    ((peSpec els0).2 = false → ((peSpec els0).1.length = 1 ∨ (peSpec els0).1.length = 2) ∧
        ∃ e0, (peSpec els0).1.head? = some e0 ∧ e0 ≠ "" ∧
          (goHasSuffix "/dns-query" e0 = true ∨ goHasSuffix "/resolve" e0 = true)) ∧
    ((peSpec els0).2 = true → (peSpec els0).1 = []) := by
  unfold peSpec
  split
  · simp
  · rename_i e0 rest _
    by_cases h0 : e0 = "" <;> by_cases h1 : rest.length > 1 <;> simp [h0, h1]
    cases hq : goHasSuffix "/dns-query" e0 <;> cases hr : goHasSuffix "/resolve" e0 <;> simp [h0]
    all_goals (simp [hq, hr]; rcases rest with _ | ⟨x, _ | ⟨y, t⟩⟩ <;> simp_all)

example : peSpec ["", "dns-query", "dev1"] = (["dns-query", "dev1"], false) := by decide
example : (peSpec ["", "dns-query", "a", "b"]).2 = true := by decide
example : (peSpec ["", "other"]).2 = true := by decide

/-! ## TLS server name -/

/-- `matchDomain`: the first configured domain of which the *lower-cased* name is an immediate
subdomain (for every `strings.ToLower` and `netutil.IsImmediateSubdomain`), `""` if there is none. -/
theorem matchDomain_eq (sub : String) (domains : List String) (lower : String → String) (imm : String → String → Bool) :
    matchDomain sub domains lower imm = (domains.find? (imm (lower sub))).getD "" := by
  unfold matchDomain goRange
  suffices h : ∀ (i : Int), (match goRangeFrom (σ := Unit) (ρ := String) i domains () (fun _ _ domain =>
      if imm (lower sub) domain = true then .ret domain else .next ()) with
      | .inr r => r | .inl _ => "") = (domains.find? (imm (lower sub))).getD "" from h 0
  induction domains with
  | nil => intro i; simp [goRangeFrom]
  | cons d t ih => intro i; cases hd : imm (lower sub) d <;> simp [goRangeFrom, hd, ih]

/-- … which is the model's `matchDomain` when the two library functions are the model's. -/
theorem matchDomain_tr (sub : String) (domains : List String) :
    matchDomain sub domains (fun s => String.ofList (Agd.Device.lower s.toList))
        (fun a b => Agd.Device.isImmediateSubdomain a.toList b.toList)
      = ((Agd.Device.matchDomain sub.toList (domains.map String.toList)).map String.ofList).getD "" := by
  rw [matchDomain_eq]
  induction domains with
  | nil => simp [Agd.Device.matchDomain]
  | cons d t ih =>
    cases hd : Agd.Device.isImmediateSubdomain (Agd.Device.lower sub.toList) d.toList <;>
      simp_all [Agd.Device.matchDomain, List.find?]

/-- `deviceDataFromCliSrvName`: no server name or no matching device domain ⇒ nothing; otherwise the
text before the first dot of the name *as sent* (not the domain, not the lower-cased copy) is parsed. -/
theorem cliSrvName_structure (f : S_devicefinder_Default) (sni : String) (md : String → List String → String)
    (cut : String → String → String × String × Bool) (parse : String → DD) :
    Default_deviceDataFromCliSrvName f sni md cut parse =
      (if sni = "" ∨ md sni f.deviceDomains = "" then ("", none, none) else parse (cut sni ".").1) := by
  unfold Default_deviceDataFromCliSrvName
  by_cases h1 : sni = "" <;> by_cases h2 : md sni f.deviceDomains = "" <;> simp [h1, h2]

/-! ## `parseDeviceData`, `parseExtHumanID` -/

theorem isLikelyExtHumanID_iff (s : String) (count : String → String → Int) :
    isLikelyExtHumanID s count = true ↔ count s "-" ≥ 2 := by
  simp [isLikelyExtHumanID]

/-- … the model's, when `strings.Count` counts characters. -/
theorem isLikelyExtHumanID_tr (s : String) :
    isLikelyExtHumanID s (fun s _ => (s.toList.count '-' : Int)) = Agd.Device.isLikelyExtHumanID s.toList := by
  simp [isLikelyExtHumanID, Agd.Device.isLikelyExtHumanID]
  omega

/-- A string is either an extended human ID (parsed from the text as given, identifier empty) or a
plain device ID (validated *after* lower-casing, no extended ID) — never both. -/
theorem parseDeviceData_structure (f : S_devicefinder_Default) (s : String) (likely : String → Bool)
    (ext : String → Option S_devicefinder_extHumanID × Option String) (lower : String → String)
    (newID : String → String × Option String) :
    Default_parseDeviceData f s likely ext lower newID =
      (if likely s then ("", (ext s).1, (ext s).2) else ((newID (lower s)).1, none, (newID (lower s)).2)) ∧
    ¬ ((Default_parseDeviceData f s likely ext lower newID).1 ≠ "" ∧
       (Default_parseDeviceData f s likely ext lower newID).2.1 ≠ none) := by
  unfold Default_parseDeviceData
  cases likely s <;> simp

/-- `parseExtHumanID` never panics (the three index reads are guarded by `len(parts) != 3`), for
every input and every validator. -/
theorem parseExtHumanID_no_panic (f : S_devicefinder_Default) (s : String) (dt : String → Int × Option String)
    (lower : String → String) (pid hid : String → String × Option String) :
    Default_parseExtHumanID f s dt lower pid hid ≠ none := by
  unfold Default_parseExtHumanID
  rcases h : goSplitN s "-" 3 with _ | ⟨a, _ | ⟨b, _ | ⟨c, _ | ⟨d, r⟩⟩⟩⟩ <;> simp [goIndex?] <;>
    (repeat' split) <;> simp <;> omega

/-- On `<type>-<profile>-<human>`: an error of any of the three validators yields no extended ID;
otherwise the device type is that of the first part, the profile ID is validated after lower-casing
the second, the human ID is the *normalised third part* (not lower-cased here). -/
theorem parseExtHumanID_parts (f : S_devicefinder_Default) (s a b c : String) (dt : String → Int × Option String)
    (lower : String → String) (pid hid : String → String × Option String) (h : goSplitN s "-" 3 = [a, b, c]) :
    Default_parseExtHumanID f s dt lower pid hid = some (
      if (dt a).2.isSome then (none, (dt a).2)
      else if (pid (lower b)).2.isSome then (none, (pid (lower b)).2)
      else if (hid c).2.isSome then (none, (hid c).2)
      else (some ⟨(hid c).1, (pid (lower b)).1, (dt a).1⟩, none)) := by
  unfold Default_parseExtHumanID
  simp [h, goIndex?]
  (repeat' split) <;> simp_all

/-- Fewer than three parts: "not a valid ext human id". -/
theorem parseExtHumanID_short (f : S_devicefinder_Default) (s : String) (dt : String → Int × Option String)
    (lower : String → String) (pid hid : String → String × Option String) (h : (goSplitN s "-" 3).length ≠ 3) :
    Default_parseExtHumanID f s dt lower pid hid = some (none, some "not a valid ext human id") := by
  unfold Default_parseExtHumanID
  have : ¬ (((goSplitN s "-" 3).length : Int) = 3) := by omega
  simp [this]

example : goSplitN "otr-prof1-My-Phone" "-" 3 = ["otr", "prof1", "My-Phone"] := by decide

/-! ## Database look-ups -/

abbrev PD := Option S_agd_Profile × Option S_agd_Device × Option String
def names (tr : List (String × List String)) : List String := tr.map (·.1)

/-- `deviceByExtID`: the look-up key is the ext ID's *own* profile ID and its lower-cased human ID.
Found ⇒ that profile and device.  Profile-not-found ⇒ nothing, whatever `CreateAutoDevice` would
return.  Only device-not-found leads to `CreateAutoDevice`, with the same profile ID, the human ID as
parsed and the ext ID's device type; any other error is an error without profile or device. -/
theorem deviceByExtID_structure (f : S_devicefinder_Default) (x : S_devicefinder_extHumanID) (lower : String → String)
    (byHuman : String → String → PD) (isProfNF isDevNF isProfNF' : Bool) (create : String → String → Int → PD) :
    (Default_deviceByExtID f (some x) lower byHuman isProfNF isDevNF create isProfNF').map
        (fun r => (r.1, r.2.1, r.2.2.isSome)) = some (
      let r := byHuman x.ProfileID (lower x.HumanID)
      if r.2.2.isNone then (r.1, r.2.1, false)
      else if isProfNF then (none, none, false)
      else if isDevNF then
        let c := create x.ProfileID x.HumanID x.DeviceType
        if c.2.2.isNone then (c.1, c.2.1, false)
        else if isProfNF' then (none, none, false)
        else (none, none, true)
      else (none, none, true)) := by
  unfold Default_deviceByExtID
  cases h1 : (byHuman x.ProfileID (lower x.HumanID)).2.2 <;>
    cases h2 : (create x.ProfileID x.HumanID x.DeviceType).2.2 <;>
    cases isProfNF <;> cases isDevNF <;> cases isProfNF' <;> simp [h1, h2]

/-- It panics exactly on a nil ext ID (the caller checks `extID != nil`). -/
theorem deviceByExtID_panic_iff (f : S_devicefinder_Default) (x : Option S_devicefinder_extHumanID) (lower : String → String)
    (byHuman : String → String → PD) (a b c : Bool) (create : String → String → Int → PD) :
    Default_deviceByExtID f x lower byHuman a b create c = none ↔ x = none := by
  cases x with
  | none => simp [Default_deviceByExtID]
  | some x =>
    have := deviceByExtID_structure f x lower byHuman a b c create
    simp only [reduceCtorEq, iff_false]
    intro h
    simp [h] at this

/-- How the merged translator shows an error argument of a traced call: only whether it is nil
(the builder's translator showed "_"). -/
abbrev errTag (e : Option String) : String := if e.isSome then "err" else "nil"

/-- `deviceFromDB`, precedence 1: a non-empty device ID is the only thing looked up — the result is
`newDeviceResult` of `ProfileByDeviceID(id)` for *that* id; the ext ID, the addresses and the protocol
play no role. -/
theorem deviceFromDB_by_id (f : S_devicefinder_Default) (id : String) (x : Option S_devicefinder_extHumanID)
    (byID : String → PD) (ndr : Option S_agd_Profile → Option S_agd_Device → String → Option String → AbsPtr)
    (byExt : Option S_devicefinder_extHumanID → PD) (addrs : AbsPtr) (h : id ≠ "") :
    Default_deviceFromDB f id x (f_ProfileByDeviceID := byID) (f_newDeviceResult := ndr)
        (f_deviceByExtID := byExt) (f_deviceByAddrs := addrs) =
      some (ndr (byID id).1 (byID id).2.1 "device id" (byID id).2.2,
            [("ProfileByDeviceID", ["_", id]), ("newDeviceResult", ["_", "_", "_", "device id", errTag (byID id).2.2])]) := by
  simp [Default_deviceFromDB, h]

/-- Precedence 2: no device ID but an extended human ID ⇒ only `deviceByExtID` of that ext ID. -/
theorem deviceFromDB_by_ext (f : S_devicefinder_Default) (x : S_devicefinder_extHumanID)
    (byID : String → PD) (ndr : Option S_agd_Profile → Option S_agd_Device → String → Option String → AbsPtr)
    (byExt : Option S_devicefinder_extHumanID → PD) (addrs : AbsPtr) :
    Default_deviceFromDB f "" (some x) (f_ProfileByDeviceID := byID) (f_newDeviceResult := ndr)
        (f_deviceByExtID := byExt) (f_deviceByAddrs := addrs) =
      some (ndr (byExt (some x)).1 (byExt (some x)).2.1 "human id" (byExt (some x)).2.2,
            [("deviceByExtID", ["_", "_"]), ("newDeviceResult", ["_", "_", "_", "human id", errTag (byExt (some x)).2.2])]) := by
  simp [Default_deviceFromDB]

/-- Precedence 3: no identifier at all.  Only a plain-DNS server goes on to the addresses; on every
other transport the result is nil and *nothing* is looked up. -/
theorem deviceFromDB_no_id (f : S_devicefinder_Default) (srv : S_agd_Server)
    (byID : String → PD) (ndr : Option S_agd_Profile → Option S_agd_Device → String → Option String → AbsPtr)
    (byExt : Option S_devicefinder_extHumanID → PD) (addrs : AbsPtr) (hsrv : f.srv = some srv) :
    Default_deviceFromDB f "" none (f_ProfileByDeviceID := byID) (f_newDeviceResult := ndr)
        (f_deviceByExtID := byExt) (f_deviceByAddrs := addrs) =
      some (if srv.Protocol = 8 then (addrs, [("deviceByAddrs", ["_", "_", "_"])]) else (false, [])) := by
  by_cases hp : srv.Protocol = 8 <;> simp [Default_deviceFromDB, hsrv, hp]

/-- `deviceByAddrs`: a server bound to interfaces that does not own the local address is a dedicated
address — only `deviceByLocalAddr` is used and the linked IP is never consulted.  Otherwise the linked
IP is consulted only where enabled; disabled ⇒ nil with no look-up. -/
theorem deviceByAddrs_structure (f : S_devicefinder_Default) (srv : S_agd_Server) (binds has : Bool) (loc : AbsPtr)
    (linked : PD) (ndr : Option S_agd_Profile → Option S_agd_Device → String → Option String → AbsPtr)
    (hsrv : f.srv = some srv) :
    Default_deviceByAddrs f binds has loc linked ndr = some (
      if binds && !has then (loc, [("deviceByLocalAddr", ["_", "_"])])
      else if !srv.LinkedIPEnabled then (false, [])
      else (ndr linked.1 linked.2.1 "linked ip" linked.2.2,
            [("ProfileByLinkedIP", ["_", "_"]), ("newDeviceResult", ["_", "_", "_", "linked ip", errTag linked.2.2])])) := by
  unfold Default_deviceByAddrs
  cases binds <;> cases has <;> cases hl : srv.LinkedIPEnabled <;> simp [hsrv, hl]

theorem dedicated_never_linked (f : S_devicefinder_Default) (loc : AbsPtr) (linked : PD)
    (ndr : Option S_agd_Profile → Option S_agd_Device → String → Option String → AbsPtr) :
    ∃ r, Default_deviceByAddrs f true false loc linked ndr = some r ∧ r.1 = loc ∧ "ProfileByLinkedIP" ∉ names r.2 := by
  simp [Default_deviceByAddrs, names]

/-- `newDeviceResult` is nil exactly when the look-up found no profile or failed with a not-found
error; any other error is a (non-nil) error result. -/
theorem newDeviceResult_nil_iff (f : S_devicefinder_Default) (p : Option S_agd_Profile) (d : Option S_agd_Device)
    (by' : String) (err : Option String) (nf : Bool) :
    Default_newDeviceResult f p d by' err nf = false ↔ (err = none ∧ p = none) ∨ (err ≠ none ∧ nf = true) := by
  unfold Default_newDeviceResult
  cases err <;> cases p <;> cases nf <;> simp

theorem isProfileDBNotFound_eq (err : Option String) (a b : Bool) : isProfileDBNotFound err a b = (a || b) := rfl

/-! ## Around `Find`: `Wrap`, `isBlockedGlobally` / `isBlockedByProfile`, `DeviceData`, `newDeviceFinder` (round 3b) -/

/-- Is the model outcome "handed to the next stages"? -/
def isNext : Agd.Device.Served → Bool
  | .next _ => true
  | _ => false

/-- The access check (two halves since the C10 repair: the global one runs before the device look-up, the
profile's after it): global address, then global host …  -/
theorem isBlockedGlobally_eq (mw : S_ratelimitmw_Middleware) (u : Unit) (host name : String) (ip hostB : Bool) (qt : Int) :
    (isBlockedGlobally mw u host name ip hostB qt).1 = (ip || hostB) := by
  unfold isBlockedGlobally
  cases ip <;> cases hostB <;> simp

/-- … then the access list of the profile that `DeviceData()` returns — and of no other. -/
theorem isBlockedByProfile_eq (mw : S_ratelimitmw_Middleware) (ri : Option S_agd_RequestInfo)
    (prof : Bool) (dd : Option S_agd_Profile × Option S_agd_Device) :
    (isBlockedByProfile mw ri dd prof).1 = (dd.1.isSome && prof) := by
  unfold isBlockedByProfile
  cases prof <;> cases h : dd.1 <;> simp [h]

/-- The profile's access list is consulted only when `DeviceData()` returned a profile, and neither half of
the access check returns the pooled request information (`Put` belongs to `Wrap` alone). -/
theorem isBlockedByAccess_profile_only (mw : S_ratelimitmw_Middleware) (ri : Option S_agd_RequestInfo)
    (u : Unit) (host name : String) (ip hostB prof : Bool) (qt : Int) (dd : Option S_agd_Profile × Option S_agd_Device) :
    let trP := names (isBlockedByProfile mw ri dd prof).2
    let trG := names (isBlockedGlobally mw u host name ip hostB qt).2
    ("IsBlocked" ∈ trP → dd.1.isSome = true) ∧ "Put" ∉ trP ∧ "Put" ∉ trG ∧ "IsBlocked" ∉ trG := by
  unfold isBlockedByProfile isBlockedGlobally names
  cases ip <;> cases hostB <;> cases prof <;> cases h : dd.1 <;> simp [h]

/-- The complete order of effects of the handler, in every run (`blockedG`: the global half, asked before
any look-up; `blockedP`: the profile half, asked with the device result in hand). -/
def wrapTrace (port : Int) (locErr blockedG blockedP cont : Bool) : List String :=
  if port = 0 then ["OnRateLimited"]
  else if blockedG then ["isBlockedGlobally"]
  else ["isBlockedGlobally", "location", "newRequestInfo", "isBlockedByProfile"] ++
    (if blockedP then []
     else "handleDeviceResult" ::
       (if !cont then ["serveDeviceErr"] else if locErr then ["serveLocationErr"]
        else ["ContextWithRequestInfo", "serveWithRatelimiting"])) ++ ["Put"]

theorem wrap_trace (mw : S_ratelimitmw_Middleware) (port : Int) (lc : Option S_geoip_Location × Option S_dnsmsg_ECS × Option String)
    (ri : S_agd_RequestInfo) (blockedG blockedP : Bool) (hd : Bool × Option String) (de le next : Option String) (cx : AbsPtr) :
    (Wrap_handler mw () port () blockedG lc (some ri) blockedP hd de le cx next).map (fun x => names x.2) =
      some (wrapTrace port lc.2.2.isSome blockedG blockedP hd.1) := by
  unfold Wrap_handler wrapTrace
  by_cases h0 : port = 0
  · simp [h0, names]
  · cases blockedG <;> cases blockedP <;> cases hc : hd.1 <;> cases hl : lc.2.2 <;> simp [h0, hc, hl, names]

/-- The handler that `Wrap` returns is the model's `wrap`: with `blockedG` / `blockedP` the results of the
two halves of the access check and `cont` that of `handleDeviceResult` (and a well-formed ECS option), the
request information reaches the context and the rate limiter / next handler exactly when the model says
`.next`. -/
theorem wrap_tr (port : Int) (g : Agd.Device.Gate) (r : Agd.Device.Result) (hp : g.port0 = decide (port = 0)) :
    let tr := wrapTrace port false (g.blockedIP || g.blockedHost) (Agd.Device.profileBlocked g r) (Agd.Device.continues r)
    ("serveWithRatelimiting" ∈ tr ↔ isNext (Agd.Device.wrap g r) = true) ∧
    ("ContextWithRequestInfo" ∈ tr ↔ isNext (Agd.Device.wrap g r) = true) := by
  unfold wrapTrace Agd.Device.wrap
  by_cases h0 : port = 0
  · simp [h0, hp, isNext]
  · have hp' : g.port0 = false := by simp [hp, h0]
    cases hg : (g.blockedIP || g.blockedHost) <;> cases hb : Agd.Device.profileBlocked g r
    · cases r <;> simp [h0, hp', hg, hb, isNext, Agd.Device.continues]
    · simp [h0, hp', hg, hb, isNext]
    · simp [h0, hp', hg, hb, isNext]
    · simp [h0, hp', hg, hb, isNext]

/-- The pooled request information is returned exactly once, as the last thing, in every run that took
one (profile-blocked, device error, malformed ECS, served); a request from port 0 and a globally blocked
request take none and run no look-up at all. -/
theorem wrap_put_once (port : Int) (locErr blockedG blockedP cont : Bool) :
    (port = 0 → wrapTrace port locErr blockedG blockedP cont = ["OnRateLimited"]) ∧
    (port ≠ 0 → blockedG = true → wrapTrace port locErr blockedG blockedP cont = ["isBlockedGlobally"]) ∧
    (port ≠ 0 → blockedG = false → (wrapTrace port locErr blockedG blockedP cont).count "Put" = 1 ∧
      (wrapTrace port locErr blockedG blockedP cont).getLast? = some "Put" ∧
      (wrapTrace port locErr blockedG blockedP cont).take 3 = ["isBlockedGlobally", "location", "newRequestInfo"]) := by
  refine ⟨?_, ?_, ?_⟩
  · intro h; simp [wrapTrace, h]
  · intro h hg; simp [wrapTrace, h, hg]
  · intro h hg
    cases locErr <;> cases blockedP <;> cases cont <;> simp [wrapTrace, h, hg] <;> decide

/-- `RequestInfo.DeviceData`: a profile and device come out only of a `*DeviceResultOK` — its own —
and for every other result both are nil. -/
theorem deviceData_only_ok (ri : S_agd_RequestInfo) (res : Option S_agd_DeviceResultOK) (ok : Bool) :
    RequestInfo_DeviceData ri (res, ok) =
      if ok then res.map (fun x => (x.Profile, x.Device)) else some (none, none) := by
  unfold RequestInfo_DeviceData
  cases ok <;> cases res <;> simp

/-- `dnssvc.newDeviceFinder`: a server group with profiles disabled gets the (non-nil) empty finder and
the default finder is not even constructed; otherwise exactly the default finder. -/
theorem newDeviceFinder_spec (c : Option S_dnssvc_HandlersConfig) (g : S_agd_ServerGroup) (s : Option S_agd_Server)
    (nd : Option S_devicefinder_Default) :
    newDeviceFinder c (some g) s nd =
      some (if g.ProfilesEnabled then (nd.isSome, [("NewDefault", ["_"])]) else (true, [])) := by
  unfold newDeviceFinder
  cases h : g.ProfilesEnabled <;> simp [h]

/-! ## Where the authentication flags come from (backend and file-cache converters) -/

/-- `backendpb.AuthenticationSettings.toInternal`: no settings ⇒ authentication disabled (and not
DoH-only); settings present ⇒ enabled, DoH-only as sent; an unknown password-hash kind is an error. -/
theorem pbAuth_toInternal_spec (x : Option S_backendpb_AuthenticationSettings) (ph : AbsPtr × Option String) :
    pbAuth_toInternal x ph = some (match x with
      | none => (some { Enabled := false, DoHAuthOnly := false }, none)
      | some a => if ph.2.isSome then (none, some "fmt.Errorf(\"password hash: %w\", err)")
                  else (some { Enabled := true, DoHAuthOnly := a.DohAuthOnly }, none)) := by
  unfold pbAuth_toInternal
  cases x <;> cases h : ph.2 <;> simp [h]

theorem fcAuth_toInternal_spec (x : Option S_filecachepb_AuthenticationSettings) (ph : AbsPtr × Option String) :
    fcAuth_toInternal x ph = some (match x with
      | none => (some { Enabled := false, DoHAuthOnly := false }, none)
      | some a => if ph.2.isSome then (none, some "fmt.Errorf(\"password hash: %w\", err)")
                  else (some { Enabled := true, DoHAuthOnly := a.DohAuthOnly }, none)) := by
  unfold fcAuth_toInternal
  cases x <;> cases h : ph.2 <;> simp [h]

/-- Discharges the former assumption "the backend never sets DoHAuthOnly without Enabled": whatever
the backend or the file cache delivers, converted settings that are DoH-only are enabled. -/
theorem converted_dohOnly_implies_enabled (ph : AbsPtr × Option String) (st : S_agd_AuthSettings) :
    (∀ x, pbAuth_toInternal x ph = some (some st, none) → st.DoHAuthOnly = true → st.Enabled = true) ∧
    (∀ x, fcAuth_toInternal x ph = some (some st, none) → st.DoHAuthOnly = true → st.Enabled = true) := by
  constructor <;> intro x h hd
  · rw [pbAuth_toInternal_spec] at h
    cases x with
    | none => simp at h; subst h; simp at hd
    | some a => cases hh : ph.2 <;> simp [hh] at h; subst h; rfl
  · rw [fcAuth_toInternal_spec] at h
    cases x with
    | none => simp at h; subst h; simp at hd
    | some a => cases hh : ph.2 <;> simp [hh] at h; subst h; rfl

/-- The password checker of converted settings is never nil when there is no error (no hash ⇒ the
allow-all checker), so `authenticate` cannot panic on it. -/
theorem dohPassword_nonnil (isNil isBcrypt : Bool) (h : Option S_agdpasswd_PasswordHashBcrypt) (hh : h.isSome = true) :
    (pbDohPasswordToInternal isNil isBcrypt h).2 = none → (pbDohPasswordToInternal isNil isBcrypt h).1 = true := by
  unfold pbDohPasswordToInternal
  cases isNil <;> cases isBcrypt <;> simp [hh]

/-- The file cache keeps the two flags of every settings value the converters can produce. -/
theorem fcAuth_roundtrip (st : S_agd_AuthSettings) (ph : AbsPtr) (hok : st.DoHAuthOnly = true → st.Enabled = true) :
    (fcAuthToProtobuf (some st)).bind (fun pb => fcAuth_toInternal pb (ph, none)) = some (some st, none) := by
  unfold fcAuthToProtobuf
  cases st with
  | mk en d =>
    cases en <;> cases d <;> simp_all [fcAuth_toInternal_spec]

/-! ## The converters against the model of `Agd.Model.Device` (settings from the backend / the cache file) -/

/-- The two flags of the model's settings, as the translated `agd.AuthSettings`. -/
def flagsOf (a : Agd.Device.AuthSettings) : S_agd_AuthSettings := { Enabled := a.enabled, DoHAuthOnly := a.dohOnly }

/-- `backendpb.AuthenticationSettings.toInternal` = the model's `authOfMsg` on the flags, whatever the
password hash of the message. -/
theorem pbAuth_toInternal_model (x : Option S_backendpb_AuthenticationSettings) (ptr : AbsPtr)
    (h : Option (Agd.Device.Str → Bool)) :
    pbAuth_toInternal x (ptr, none) =
      some (some (flagsOf (Agd.Device.authOfMsg (x.map fun a => { dohOnly := a.DohAuthOnly, hash := h }))), none) := by
  rw [pbAuth_toInternal_spec]
  cases x <;> rfl

/-- `filecachepb.AuthenticationSettings.toInternal` = the same model function. -/
theorem fcAuth_toInternal_model (x : Option S_filecachepb_AuthenticationSettings) (ptr : AbsPtr)
    (h : Option (Agd.Device.Str → Bool)) :
    fcAuth_toInternal x (ptr, none) =
      some (some (flagsOf (Agd.Device.authOfMsg (x.map fun a => { dohOnly := a.DohAuthOnly, hash := h }))), none) := by
  rw [fcAuth_toInternal_spec]
  cases x <;> rfl

/-- `filecachepb.authToProtobuf` = the model's `cacheOfAuth`: a message is written exactly for enabled
settings — whatever their password hash — and carries their DoH-only flag. -/
theorem fcAuthToProtobuf_model (a : Agd.Device.AuthSettings) :
    fcAuthToProtobuf (some (flagsOf a)) =
      some ((Agd.Device.cacheOfAuth a).map fun m =>
        ({ DohAuthOnly := m.dohOnly, sizeCache := 0, unknownFields := [] } : S_filecachepb_AuthenticationSettings)) := by
  unfold fcAuthToProtobuf Agd.Device.cacheOfAuth flagsOf
  obtain ⟨en, d, h⟩ := a
  cases en <;> simp

/-- `filecachepb.authToProtobuf` writes a message iff the settings are enabled: in particular for
enabled settings without a password hash. -/
theorem fcAuthToProtobuf_written_iff (st : S_agd_AuthSettings) :
    ∃ pb, fcAuthToProtobuf (some st) = some pb ∧ (pb.isSome = st.Enabled) ∧
      ∀ m, pb = some m → m.DohAuthOnly = st.DoHAuthOnly := by
  unfold fcAuthToProtobuf
  obtain ⟨en, d⟩ := st
  cases en <;> simp

/-- `filecachepb.dohPasswordToProtobuf`: the allow-all authenticator is written as "no hash" (nil), a
bcrypt hash as a non-nil value; it panics exactly on another kind of authenticator (which the converters
never produce, `dohPassword_nonnil`). -/
theorem fcDohPasswordToProtobuf_spec (isAllow isBcrypt : Bool) (h : List Int) :
    fcDohPasswordToProtobuf isAllow isBcrypt h =
      if isAllow then some false else if isBcrypt then some true else none := by
  unfold fcDohPasswordToProtobuf
  cases isAllow <;> cases isBcrypt <;> rfl

/-- `filecachepb.dohPasswordToInternal`: "no hash" is read back as a non-nil authenticator (the allow-all
one) without an error, a bcrypt value as the hash object; only another kind of value is an error. -/
theorem fcDohPasswordToInternal_spec (isNil isBcrypt : Bool) (h : Option S_agdpasswd_PasswordHashBcrypt) :
    fcDohPasswordToInternal isNil isBcrypt h =
      if isNil then (true, none) else if isBcrypt then (h.isSome, none)
      else (false, some "fmt.Errorf(\"bad pb auth doh password hash %T(%[1]v)\", pbp)") := by
  unfold fcDohPasswordToInternal
  cases isNil <;> cases isBcrypt <;> rfl

/-- Kind round trip of the password hash through the cache file: what `dohPasswordToProtobuf` writes for
the allow-all authenticator (nil) or for a bcrypt hash (non-nil bcrypt value), `dohPasswordToInternal`
reads back without an error as a non-nil authenticator. -/
theorem fcDohPassword_roundtrip (isAllow isBcrypt : Bool) (hk : (isAllow || isBcrypt) = true) (b : List Int)
    (h : Option S_agdpasswd_PasswordHashBcrypt) (hh : h.isSome = true) :
    ∃ nonNil, fcDohPasswordToProtobuf isAllow isBcrypt b = some nonNil ∧
      fcDohPasswordToInternal (!nonNil) nonNil h = (true, none) := by
  cases isAllow <;> cases isBcrypt <;> simp_all [fcDohPasswordToProtobuf_spec, fcDohPasswordToInternal_spec]

end Agd.Tie.TrC03
