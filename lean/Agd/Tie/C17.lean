import Agd.Gen.C17
/-! Tie theorems for C17: the source facts the model was written against still hold in /repo. -/
namespace Agd.Tie.C17
open Agd.Gen.C17

/-- `ServeDNS`: fallbacks are used iff no active main upstream or the main's error is a `net.Error`,
and only when fallbacks are configured; the fallback exchange happens once, outside any loop. -/
theorem serve_use_fallbacks_init_src : serve_use_fallbacks_init = "ups == nil" := by decide
theorem serve_use_fallbacks_err_src :
    serve_use_fallbacks_err = "err != nil && errors.As(err, &netErr)" := by decide
def serveIfCondsExpected : String :=
  "!useFallbacks | useFallbacks && len(h.fallbacks) > 0 | err != nil | resp == nil | err != nil"
theorem serve_if_conds_src : serve_if_conds = serveIfCondsExpected := by decide
theorem serve_fallback_exchange_src : serve_fallback_exchange = "ctx, fallbackUps, req" := by decide
/-- `pickActiveUpstream`: nil iff the active list is empty, otherwise an element of it. -/
theorem pick_empty_cond_src : pick_empty_cond = "len(h.activeUpstreams) == 0" := by decide
theorem pick_returns_src : pick_returns = "nil | h.activeUpstreams[i]" := by decide
/-- `refresh` does nothing without fallbacks. -/
theorem refresh_no_fallbacks_src : refresh_no_fallbacks_cond = "len(h.fallbacks) == 0" := by decide
/-- `healthcheck`: skipped when in backoff, else error or active; the active list is replaced. -/
def healthcheckIfCondsExpected : String :=
  "strings.Contains(domain, randomPlaceholder) | roundIsOver(ctx) | status.lastFailedHealthcheck.IsZero() | inBackoff | ckErr != nil | len(activeUps) == 0"
set_option maxRecDepth 4096 in
theorem healthcheck_if_conds_src : healthcheck_if_conds = healthcheckIfCondsExpected := by decide
/-- As fixed: an upstream whose turn comes when the context of the round is done is not probed; it
stays on the active list iff no failure is recorded for it. -/
theorem healthcheck_ctx_done_cond_src : healthcheck_ctx_done_cond = "roundIsOver(ctx)" := by decide
/-- The round is over when the context is done or its deadline has passed (the deadline is looked
at directly: a probe that gets no response ends at that very moment, possibly before the timer of
the context has fired). -/
theorem round_is_over_returns_src :
    round_is_over_returns = "true | hasDeadline && !time.Now().Before(deadline)" := by decide
theorem round_is_over_cond_src : round_is_over_cond = "ctx.Err() != nil" := by decide
theorem healthcheck_kept_cond_src :
    healthcheck_kept_cond = "status.lastFailedHealthcheck.IsZero()" := by decide
theorem healthcheck_kept_append_src :
    healthcheck_kept_append = "append(activeUps, status.upstream)" := by decide
theorem healthcheck_active_assign_src : healthcheck_active_assign = "activeUps" := by decide
theorem healthcheck_active_append_src :
    healthcheck_active_append = "append(activeUps, status.upstream)" := by decide
/-- The backoff comparison is strict and on the time since the last failed probe. -/
theorem backoff_cond_src : backoff_cond = "time.Since(lastFailed) < h.hcBackoff" := by decide
theorem last_failed_on_error_src : last_failed_on_error = "time.Now()" := by decide
theorem last_failed_on_success_src : last_failed_on_success = "time.Time{}" := by decide
/-- A probe succeeds iff there is a response with rcode NOERROR. -/
theorem check_upstream_src :
    check_upstream_if_conds = "err != nil | resp == nil | rc != dns.RcodeSuccess | ok" := by decide
/-- `validatePlainResponse`: id, question count, type, case-insensitive name — in this order. -/
def validateIfCondsExpected : String :=
  "req.Id != resp.Id | qlen != 1 | reqQ.Qtype != respQ.Qtype | !strings.EqualFold(reqQ.Name, respQ.Name)"
theorem validate_if_conds_src : validate_if_conds = validateIfCondsExpected := by decide
/-- `readMsg` unpacks exactly the bytes that were read (the fix for the buffer-residue defect). -/
theorem read_msg_unpack_arg_src : read_msg_unpack_arg = "buf[:n]" := by decide
theorem min_dns_message_size_src : min_dns_message_size = "12 + 5" := by decide
/-- `readValidMsg`: after a successful read the only thing between the parsed message and the
caller is `validatePlainResponse(req, resp)`: no branch on flags, transport or network mode. -/
theorem read_valid_msg_if_conds_src : read_valid_msg_if_conds = "err != nil | err != nil" := by decide
theorem read_valid_msg_validate_args_src : read_valid_msg_validate_args = "req, resp" := by decide
/-- `exchangeUDP` / `Exchange`: the only decisions are TCP-only, error, and the fallback flag. -/
theorem exchange_udp_if_conds_src :
    exchange_udp_if_conds = "u.network == NetworkTCP | err != nil" := by decide
theorem exchange_if_conds_src : exchange_if_conds = "u.timeout > 0 | !fallbackToTCP" := by decide
/-- `exchangeUDP`: TCP after a non-connection error or a truncated reply (unless UDP-only). -/
theorem udp_fallback_on_error_src : udp_fallback_on_error = "!isExpectedConnErr(err)" := by decide
def udpTruncExpected : String := "u.network != NetworkUDP && resp != nil && resp.Truncated"
theorem udp_fallback_on_truncation_src : udp_fallback_on_truncation = udpTruncExpected := by decide
def expectedConnErrExpected : String :=
  "err != nil && (errors.As(err, &netErr) || errors.Is(err, io.EOF))"
theorem expected_conn_err_src : expected_conn_err = expectedConnErrExpected := by decide

/-- `NewHandler`: every configured main upstream starts active; the initial health check runs iff
`HealthcheckInitDuration > 0` and is an ordinary `refresh`. -/
theorem new_handler_if_conds_src :
    new_handler_if_conds = "l != nil | c.HealthcheckInitDuration > 0" := by decide
theorem new_handler_active_append_src :
    new_handler_active_append = "append(h.activeUpstreams, u)" := by decide
theorem new_handler_init_refresh_src : new_handler_init_refresh = "ctx, true" := by decide
theorem refresh_calls_healthcheck_src : refresh_calls_healthcheck = "ctx, mustReport" := by decide
theorem public_refresh_src : public_refresh = "h.refresh(ctx, false)" := by decide
/-- The random choices range over the whole active / fallback list. -/
theorem pick_index_src : pick_index = "len(h.activeUpstreams)" := by decide
theorem serve_fallback_index_src : serve_fallback_index = "len(h.fallbacks)" := by decide
theorem serve_fallback_pick_src : serve_fallback_pick = "h.fallbacks[i]" := by decide
/-- `exchangeNet`: one more attempt on a fresh connection, only after an expected connection error
(since the C06 repair the request is packed again first, which adds one error check). -/
def exchangeNetIfCondsExpected : String :=
  "network == NetworkTCP | err != nil | err != nil | isExpectedConnErr(err) | err != nil | err != nil"
theorem exchange_net_if_conds_src : exchange_net_if_conds = exchangeNetIfCondsExpected := by decide

/-- Fifth audit, as fixed: the start-up check of `domain_template` packs the name made with the
longest random part (16 digits replace every placeholder) and bounds its wire length; the
configuration's `validate` calls it on `c.DomainTmpl` after the case list. -/
theorem tmpl_validate_if_conds_src : tmpl_validate_if_conds = "err != nil | n > maxDomainNameWireLen" := by decide
theorem tmpl_validate_longest_src :
    tmpl_validate_longest = "strings.Repeat(\"f\", maxRandomPlaceholderLen)" := by decide
theorem tmpl_validate_domain_src :
    tmpl_validate_domain = "strings.ReplaceAll(tmpl, randomPlaceholder, longest)" := by decide
theorem tmpl_validate_pack_src : tmpl_validate_pack = "dns.Fqdn(domain), buf, 0, nil, false" := by decide
theorem hc_config_validates_tmpl_src : hc_config_validates_tmpl = "c.DomainTmpl" := by decide
set_option maxRecDepth 4096 in
theorem hc_config_validate_cases_src : hc_config_validate_cases =
    "c == nil | !c.Enabled | c.DomainTmpl == \"\" | c.Interval.Duration <= 0 | c.Timeout.Duration <= 0 | c.BackoffDuration.Duration <= 0" := by
  decide

end Agd.Tie.C17
