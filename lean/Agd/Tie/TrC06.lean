import Agd.Gen.TrC06
import Agd.Model.Buffers
/-!
# C06: which bytes are decoded, as translated from the source

`Agd.Gen.TrC06.*` are regenerated on every run (`extract/tr.go`) from `ServerQUIC.readQUICMsg`,
`ServerDNS.readTCPMsg` (`internal/dnsserver`) and `UpstreamPlain.readMsg`
(`internal/dnsserver/forward`).  Byte buffers are abstract objects; a window `buf[lo:hi]` handed to a
traced call is shown with the values of its bounds, so "the decoder sees exactly the bytes that were
read for this message" is a statement about the trace.
-/
namespace Agd.Tie.TrC06
open Agd.Gen.TrC06 Agd.TrPrelude

theorem translation_complete : translationFailures = [] := by decide

def names (tr : List (String × List String)) : List String := tr.map (·.1)
/-- Arguments of the calls of `f` in a trace. -/
def callsOf (f : String) (tr : List (String × List String)) : List (List String) :=
  (tr.filter (·.1 = f)).map (·.2)

/-- DoQ: whenever a message is decoded, `Unpack` receives exactly the window `buf[2:n]`, where `n` is
the number of bytes read from this stream — never the rest of the pooled buffer — and only when the
length prefix equals `n - 2`; fewer than 12 bytes are never decoded; the pooled buffer is given back
exactly once, as the last effect, in every run. -/
theorem quic_decodes_own_bytes (s : S_dnsserver_ServerQUIC) (g b : AbsPtr) (dl : Option String)
    (rd : Int × Option String) (plen : Int) (up : Option String) :
    let out := readQUICMsg s g b dl rd plen up
    (callsOf "Unpack" out.2.2 = [] ∨ callsOf "Unpack" out.2.2 = [["buf[2:" ++ toString rd.1 ++ "]"]]) ∧
    (callsOf "Unpack" out.2.2 ≠ [] → 12 ≤ rd.1 ∧ plen = goWrapU 65536 (rd.1 - 2)) ∧
    (names out.2.2).getLast? = some "Put" ∧ (names out.2.2).count "Put" = 1 ∧
    (out.1 = true → out.2.1 = none ∧ up = none) := by
  have e2 : "buf[" ++ Int.repr 2 ++ ":" = "buf[2:" := by decide
  by_cases h1 : rd.1 < 12 <;> cases h2 : rd.2 <;> by_cases h3 : plen = goWrapU 65536 (rd.1 - 2) <;>
    cases up <;> simp [readQUICMsg, callsOf, names, h1, h2, h3, e2] <;> omega

/-- Upstream replies (UDP and TCP): `Unpack` receives exactly `buf[:n]` with `n` the number of bytes
this read returned, and only if `n ≥ 17`; on TCP exactly the announced `length` bytes are read. -/
theorem upstream_decodes_read_bytes (u : S_forward_UpstreamPlain) (network : String) (r1 : Option String)
    (rf : Int × Option String) (up : Option String) (rd : Int × Option String) :
    let out := upstream_readMsg u network r1 rf up rd
    let n := if network = "tcp" then rf.1 else rd.1
    (callsOf "Unpack" out.2.2 = [] ∨ callsOf "Unpack" out.2.2 = [["buf[:" ++ toString n ++ "]"]]) ∧
    (callsOf "Unpack" out.2.2 ≠ [] → 17 ≤ n) ∧
    (out.1 = true → out.2.1 = none ∧ up = none) := by
  by_cases h0 : network = "tcp" <;> cases r1 <;> cases h2 : rf.2 <;> cases h3 : rd.2 <;> cases up <;>
    by_cases h4 : rf.1 < 17 <;> by_cases h5 : rd.1 < 17 <;>
    simp [upstream_readMsg, callsOf, names, h0, h2, h3, h4, h5] <;> omega

/-- TCP/DoT server side: a buffer of exactly the announced length is requested, and a failed read
gives it back and returns no buffer. -/
theorem tcp_buffer_sized_by_prefix (s : S_dnsserver_ServerDNS) (t : Int) (dl rl : Option String) (gb : AbsPtr)
    (rf : Int × Option String) :
    let out := readTCPMsg s t dl rl gb rf
    (dl = none → rl = none → rf.2 ≠ none → out.1 = false ∧ (names out.2.2).getLast? = some "Put") ∧
    (dl = none → rl = none → rf.2 = none → out.1 = gb ∧ "Put" ∉ names out.2.2) := by
  cases dl <;> cases rl <;> cases h : rf.2 <;> simp [readTCPMsg, names, h]

example (s : S_dnsserver_ServerQUIC) :
    callsOf "Unpack" (readQUICMsg s true true none (30, none) 28 none).2.2 = [["buf[2:30]"]] := by
  simp [readQUICMsg, callsOf, goWrapU]; decide

/-- Scans the names of a trace: every `processConn` (which writes `buf[:bufReqLen]`) must have a
`packReq` of its own since the previous `processConn`. -/
def packedBeforeEveryWrite : Bool → List String → Bool
  | _, [] => true
  | fresh, n :: rest =>
    if n = "packReq" then packedBeforeEveryWrite true rest
    else if n = "processConn" then fresh && packedBeforeEveryWrite false rest
    else packedBeforeEveryWrite fresh rest

/-- `exchangeNet` (round 3, after the `fix:` commit): in every run each attempt writes a request
that was packed for this very attempt — the second attempt does not reuse what the failed read left
in the shared buffer — with the length that `packReq` call returned; the pooled buffer is given back
exactly once, as the last effect. -/
theorem exchange_packs_before_every_write (u : S_forward_UpstreamPlain) (network : String) (gb bp : AbsPtr)
    (p1 p2 : Int × Option String) (g c : Option S_pool_Conn × Option String) (r1 r2 : AbsPtr × Option String)
    (retry : Bool) :
    let out := upstream_exchangeNet u network gb bp p1 g r1 retry p2 c r2
    packedBeforeEveryWrite false (names out.2.2) = true ∧
    (names out.2.2).getLast? = some "putBuffer" ∧ (names out.2.2).count "putBuffer" = 1 ∧
    ((callsOf "processConn" out.2.2).map (·.getLast?) = [] ∨
     (callsOf "processConn" out.2.2).map (·.getLast?) = [some (toString p1.1)] ∨
     (callsOf "processConn" out.2.2).map (·.getLast?) = [some (toString p1.1), some (toString p2.1)]) := by
  by_cases h0 : network = "tcp" <;> cases h1 : p1.2 <;> cases h2 : g.2 <;> cases retry <;>
    cases h3 : p2.2 <;> cases h4 : c.2 <;>
    simp [upstream_exchangeNet, callsOf, names, packedBeforeEveryWrite, h0, h1, h2, h3, h4]

example (u : S_forward_UpstreamPlain) :
    names (upstream_exchangeNet u "tcp" true true (50, none) (none, none) (false, some "reset") true
      (50, none) (none, none) (true, none)).2.2 =
      ["getBuffer", "packReq", "Get", "processConn", "packReq", "Create", "processConn", "putBuffer"] := by
  simp [upstream_exchangeNet, names]

/-! ## `UpstreamPlain.packReq` (translated with byte slices as lists, `copy` as `goCopy`)

Parameters of `upstream_packReq`: `buf` (the pooled buffer), `o1_Len` (the result of `req.Len()`),
`o2_PackBuffer` (what `req.PackBuffer(msgBuf)` returned: the packed slice and the error).  Results:
`n`, `err`, the final contents of the local `msgBuf` and the trace.  In Go `msgBuf` shares its array
with `buf` (from offset 2 on TCP); lists do not alias, so "what `msgBuf` holds at the end is what
`buf[2:]` (resp. `buf`) holds" is the reading of the Go slice semantics assumed here, not derived. -/

/-- Normal form of the translated `packReq`. -/
theorem packReq_tcp (u : S_forward_UpstreamPlain) (buf : List Int) (reqLen : Int)
    (pk : List Int × Option String) :
    upstream_packReq u "tcp" buf reqLen pk =
      if reqLen > 65535 then some (0, some "dns.ErrBuf", [], [("Len", [])])
      else if reqLen > (buf.length : Int) - 2 then some (0, some "dns.ErrBuf", buf, [("Len", [])])
      else if (buf.length : Int) < 2 then none
      else if pk.2.isSome then some (0, pk.2, buf.drop 2, [("Len", []), ("PackBuffer", ["_"])])
      else if (pk.1.length : Int) > (buf.length : Int) - 2 then
        some (0, some "dns.ErrBuf", buf.drop 2, [("Len", []), ("PackBuffer", ["_"])])
      else some (goCopyN (buf.drop 2) pk.1 + 2, none, goCopy (buf.drop 2) pk.1,
        [("Len", []), ("PackBuffer", ["_"]), ("PutUint16", ["_", toString (goWrapU 65536 (goCopyN (buf.drop 2) pk.1))])]) := by
  unfold upstream_packReq
  by_cases h1 : reqLen > 65535
  · simp [h1]
  by_cases h2 : reqLen > (buf.length : Int) - 2
  · simp [h1, h2]
  by_cases h4 : (buf.length : Int) < 2
  · have : ¬ (2 : Int) ≤ buf.length := by omega
    simp [h1, h2, h4, this]
  have h4' : (2 : Int) ≤ buf.length := by omega
  have hd : ((List.drop 2 buf).length : Int) = (buf.length : Int) - 2 := by
    rw [List.length_drop] <;> omega
  cases h5 : pk.2
  · by_cases h6 : (pk.1.length : Int) > (buf.length : Int) - 2
    · simp [h1, h2, h4, h4', h5, h6] <;> omega
    · simp [h1, h2, h4, h4', h5, h6] <;> omega
  · simp [h1, h2, h4, h4', h5]

/-- Normal form on every other network. -/
theorem packReq_udp (u : S_forward_UpstreamPlain) (network : String) (hn : network ≠ "tcp") (buf : List Int)
    (reqLen : Int) (pk : List Int × Option String) :
    upstream_packReq u network buf reqLen pk =
      if reqLen > 65535 then some (0, some "dns.ErrBuf", [], [("Len", [])])
      else if reqLen > (buf.length : Int) then some (0, some "dns.ErrBuf", buf, [("Len", [])])
      else if pk.2.isSome then some (0, pk.2, buf, [("Len", []), ("PackBuffer", ["_"])])
      else if (pk.1.length : Int) > (buf.length : Int) then
        some (0, some "dns.ErrBuf", buf, [("Len", []), ("PackBuffer", ["_"])])
      else some (goCopyN buf pk.1, none, goCopy buf pk.1, [("Len", []), ("PackBuffer", ["_"])]) := by
  unfold upstream_packReq
  by_cases h1 : reqLen > 65535
  · simp [h1]
  by_cases h2 : reqLen > (buf.length : Int)
  · simp [h1, h2, hn]
  cases h5 : pk.2
  · by_cases h6 : (pk.1.length : Int) > (buf.length : Int)
    · simp [h1, h2, hn, h5, h6] <;> omega
    · simp [h1, h2, hn, h5, h6] <;> omega
  · simp [h1, h2, hn, h5]

/-- Bytes of the hand-written model as the integers of the translated code. -/
def toI (b : Agd.Buffers.Bytes) : List Int := b.map fun x => (x.toNat : Int)

@[simp] theorem toI_length (b : Agd.Buffers.Bytes) : (toI b).length = b.length := by simp [toI]

theorem toI_overwrite (a b : Agd.Buffers.Bytes) : toI (Agd.Buffers.overwrite a b) = goCopy (toI a) (toI b) := by
  simp [toI, Agd.Buffers.overwrite, goCopy, List.map_take, List.map_drop]

theorem overwrite_twice (b p : Agd.Buffers.Bytes) (h : p.length ≤ b.length) :
    Agd.Buffers.overwrite (Agd.Buffers.overwrite b p) p = Agd.Buffers.overwrite b p := by
  have e : Agd.Buffers.overwrite b p = p ++ b.drop p.length := by
    simp [Agd.Buffers.overwrite, List.take_of_length_le h]
  rw [e]
  simp [Agd.Buffers.overwrite]
  exact List.take_of_length_le (by omega)

theorem model_buffer (spare : Nat) (b p : Agd.Buffers.Bytes) (h : p.length ≤ b.length) :
    Agd.Buffers.overwrite (Agd.Buffers.packBufferInto spare b p) p = Agd.Buffers.overwrite b p := by
  unfold Agd.Buffers.packBufferInto
  split
  · exact overwrite_twice b p h
  · rfl

/-- What the caller of `packReq` sees: `n`, `err` and the final contents of `msgBuf`. -/
def visible (o : Option (Int × Option String × List Int × List (String × List String))) :
    Option (Int × Option String × List Int) := o.map fun r => (r.1, r.2.1, r.2.2.1)

/-- **The hand-written `Agd.Buffers.packReq` is the translated source** (success case, every buffer and
every packed request of at most 65535 bytes, both networks): when `Len()` is the packed length and
`PackBuffer` returns the packed request without an error — whether it packed in place or allocated
(`spare`) — the translated function returns the model's `bufReqLen` and leaves in `msgBuf` exactly
what the model's buffer holds after the length prefix. -/
theorem packReq_tr_some (u : S_forward_UpstreamPlain) (network : String) (spare : Nat) (buf packed : Agd.Buffers.Bytes)
    (hlen : packed.length ≤ 65535) (r : Nat × Agd.Buffers.Bytes)
    (hm : Agd.Buffers.packReq spare (decide (network = "tcp")) buf packed = some r) :
    visible (upstream_packReq u network (toI buf) packed.length (toI packed, none)) =
      some ((r.1 : Int), none, toI (r.2.drop (if network = "tcp" then 2 else 0))) := by
  unfold Agd.Buffers.packReq at hm
  by_cases hn : network = "tcp"
  · subst hn
    simp at hm
    obtain ⟨hfit, hr⟩ := hm
    subst hr
    rw [packReq_tcp]
    have h1 : ¬ ((packed.length : Int) > 65535) := by omega
    have h2 : ¬ ((packed.length : Int) > (((toI buf).length : Nat) : Int) - 2) := by rw [toI_length]; omega
    have h3 : ¬ ((((toI buf).length : Nat) : Int) < 2) := by rw [toI_length]; omega
    have h4 : ¬ ((((toI packed).length : Nat) : Int) > (((toI buf).length : Nat) : Int) - 2) := by
      rw [toI_length, toI_length]; omega
    simp only [h1, h2, h3, h4, if_false, Option.isSome_none, Bool.false_eq_true, visible, Option.map_some]
    have hd : List.drop 2 (toI buf) = toI (buf.drop 2) := by simp [toI, List.map_drop]
    have hl : (toI packed).length ≤ (toI (buf.drop 2)).length := by simp; omega
    have hb : List.drop 2 (Agd.Buffers.be16Bytes packed.length ++
        Agd.Buffers.overwrite (Agd.Buffers.packBufferInto spare (List.drop 2 buf) packed) packed) =
        Agd.Buffers.overwrite (List.drop 2 buf) packed := by
      rw [model_buffer spare _ _ (by simp; omega)]; rfl
    rw [hd, goCopyN_of_le _ _ hl, if_pos trivial, hb, toI_overwrite, toI_length]
    rfl
  · simp [hn] at hm
    obtain ⟨hfit, hr⟩ := hm
    subst hr
    rw [packReq_udp u network hn]
    have h1 : ¬ ((packed.length : Int) > 65535) := by omega
    have h2 : ¬ ((packed.length : Int) > (((toI buf).length : Nat) : Int)) := by rw [toI_length]; omega
    have h4 : ¬ ((((toI packed).length : Nat) : Int) > (((toI buf).length : Nat) : Int)) := by
      rw [toI_length, toI_length]; omega
    simp only [h1, h2, h4, if_false, Option.isSome_none, Bool.false_eq_true, visible, Option.map_some]
    have hl : (toI packed).length ≤ (toI buf).length := by simp; omega
    rw [goCopyN_of_le _ _ hl, if_neg hn, model_buffer spare _ _ hfit, List.drop_zero, toI_overwrite, toI_length]

/-- … and where the model says `dns.ErrBuf` (buffer too small), so does the source, with `n = 0`. -/
theorem packReq_tr_none (u : S_forward_UpstreamPlain) (network : String) (spare : Nat) (buf packed : Agd.Buffers.Bytes)
    (hlen : packed.length ≤ 65535)
    (hm : Agd.Buffers.packReq spare (decide (network = "tcp")) buf packed = none) :
    (visible (upstream_packReq u network (toI buf) packed.length (toI packed, none))).map (fun o => (o.1, o.2.1)) =
      some (0, some "dns.ErrBuf") := by
  unfold Agd.Buffers.packReq at hm
  have h1 : ¬ ((packed.length : Int) > 65535) := by omega
  by_cases hn : network = "tcp"
  · subst hn
    simp at hm
    rw [packReq_tcp]
    have h2 : ((packed.length : Int) > (((toI buf).length : Nat) : Int) - 2) := by rw [toI_length]; omega
    rw [if_neg h1, if_pos h2]; rfl
  · simp [hn] at hm
    rw [packReq_udp u network hn]
    have h2 : ((packed.length : Int) > (((toI buf).length : Nat) : Int)) := by rw [toI_length]; omega
    rw [if_neg h1, if_pos h2]; rfl

/-- The hypotheses of `packReq_tr_some` are satisfiable on a non-trivial instance, on both sides. -/
example : Agd.Buffers.packReq 1 true (Agd.Buffers.zeros 8) [1, 2, 3] = some (5, [0, 3, 1, 2, 3, 0, 0, 0]) := by decide
example (u : S_forward_UpstreamPlain) :
    visible (upstream_packReq u "tcp" [0, 0, 0, 0, 0, 0, 0, 0] 3 ([1, 2, 3], none)) = some (5, none, [1, 2, 3, 0, 0, 0]) := by
  rw [packReq_tcp]; decide

/-- The exact panic guard: the only panic of `packReq` is `buf[2:]` on a buffer shorter than two
bytes, which needs `reqLen ≤ len(buf) - 2 < 0`. -/
theorem packReq_panics_iff (u : S_forward_UpstreamPlain) (network : String) (buf : List Int) (reqLen : Int)
    (pk : List Int × Option String) :
    upstream_packReq u network buf reqLen pk = none ↔
      network = "tcp" ∧ reqLen ≤ (buf.length : Int) - 2 ∧ buf.length < 2 := by
  by_cases hn : network = "tcp"
  · subst hn
    rw [packReq_tcp]
    repeat' split
    all_goals simp
    all_goals omega
  · rw [packReq_udp u network hn]
    repeat' split
    all_goals simp [hn]

/-- `packReq` never panics on a request of non-negative length. -/
theorem packReq_never_panics (u : S_forward_UpstreamPlain) (network : String) (buf : List Int) (reqLen : Int)
    (pk : List Int × Option String) (h : 0 ≤ reqLen) :
    upstream_packReq u network buf reqLen pk ≠ none := by
  rw [Ne, packReq_panics_iff]; omega

/-- For every result of `Len()` and `PackBuffer`: when `packReq` reports success, the slice that
`PackBuffer` returned (possibly a newly allocated one) has been copied to the head of `msgBuf`
(= `buf[2:]` on TCP, `buf` otherwise) in full, `n` is its length plus the two bytes of the TCP prefix and
fits the buffer, and on TCP `PutUint16` is called exactly once, as the last effect, with that length. -/
theorem packReq_success (u : S_forward_UpstreamPlain) (network : String) (buf : List Int) (reqLen : Int)
    (pk : List Int × Option String) (n : Int) (mb : List Int) (tr : List (String × List String))
    (h : upstream_packReq u network buf reqLen pk = some (n, none, mb, tr)) :
    let k : Nat := if network = "tcp" then 2 else 0
    pk.2 = none ∧ n = pk.1.length + k ∧ n ≤ buf.length ∧ reqLen + k ≤ buf.length ∧
      mb = goCopy (buf.drop k) pk.1 ∧ mb.take pk.1.length = pk.1 ∧
      names tr = (if network = "tcp" then ["Len", "PackBuffer", "PutUint16"] else ["Len", "PackBuffer"]) ∧
      callsOf "PutUint16" tr = (if network = "tcp" then [["_", toString (goWrapU 65536 pk.1.length)]] else []) := by
  by_cases hn : network = "tcp"
  · subst hn
    rw [packReq_tcp] at h
    split at h
    · simp at h
    split at h
    · simp at h
    split at h
    · simp at h
    split at h
    · rename_i h5
      simp at h
      rw [h.2.1] at h5
      simp at h5
    split at h
    · simp at h
    rename_i h1 h2 h3 h5 h6
    have hl : pk.1.length ≤ (buf.drop 2).length := by rw [List.length_drop]; omega
    rw [goCopyN_of_le _ _ hl] at h
    simp only [Option.some.injEq, Prod.mk.injEq, true_and] at h
    obtain ⟨hn, hmb, htr⟩ := h
    subst hn hmb htr
    refine ⟨by simpa using h5, rfl, ?_, ?_, rfl, goCopy_take _ _ hl, by simp [names], by simp [callsOf]⟩
    · omega
    · show reqLen + ((2 : Nat) : Int) ≤ _; omega
  · rw [packReq_udp u network hn] at h
    split at h
    · simp at h
    split at h
    · simp at h
    split at h
    · rename_i h5
      simp at h
      rw [h.2.1] at h5
      simp at h5
    split at h
    · simp at h
    rename_i h1 h2 h5 h6
    have hl : pk.1.length ≤ buf.length := by omega
    rw [goCopyN_of_le _ _ hl] at h
    simp only [Option.some.injEq, Prod.mk.injEq, true_and] at h
    obtain ⟨hnn, hmb, htr⟩ := h
    subst hnn hmb htr
    refine ⟨by simpa using h5, by simp [hn], ?_, ?_, by simp [hn], goCopy_take _ _ hl, by simp [names, hn], by simp [callsOf, hn]⟩
    · omega
    · rw [if_neg hn]; omega

/-- Every failure returns `n = 0`, writes no length prefix and copies nothing into the buffer. -/
theorem packReq_failure (u : S_forward_UpstreamPlain) (network : String) (buf : List Int) (reqLen : Int)
    (pk : List Int × Option String) (n : Int) (e : String) (mb : List Int) (tr : List (String × List String))
    (h : upstream_packReq u network buf reqLen pk = some (n, some e, mb, tr)) :
    n = 0 ∧ callsOf "PutUint16" tr = [] ∧ (mb = [] ∨ mb = buf ∨ mb = buf.drop 2) ∧
      (e = "dns.ErrBuf" ∨ pk.2 = some e) := by
  by_cases hn : network = "tcp"
  · subst hn
    rw [packReq_tcp] at h
    repeat' split at h
    all_goals simp at h
    all_goals obtain ⟨h1, h2, h3, h4⟩ := h
    all_goals subst h1 h3 h4
    all_goals simp [callsOf, h2.symm]
  · rw [packReq_udp u network hn] at h
    repeat' split at h
    all_goals simp at h
    all_goals obtain ⟨h1, h2, h3, h4⟩ := h
    all_goals subst h1 h3 h4
    all_goals simp [callsOf, h2.symm]

end Agd.Tie.TrC06

#print axioms Agd.Tie.TrC06.translation_complete
#print axioms Agd.Tie.TrC06.quic_decodes_own_bytes
#print axioms Agd.Tie.TrC06.upstream_decodes_read_bytes
#print axioms Agd.Tie.TrC06.tcp_buffer_sized_by_prefix
#print axioms Agd.Tie.TrC06.exchange_packs_before_every_write
#print axioms Agd.Tie.TrC06.packReq_tcp
#print axioms Agd.Tie.TrC06.packReq_udp
#print axioms Agd.Tie.TrC06.toI_overwrite
#print axioms Agd.Tie.TrC06.overwrite_twice
#print axioms Agd.Tie.TrC06.model_buffer
#print axioms Agd.Tie.TrC06.packReq_tr_some
#print axioms Agd.Tie.TrC06.packReq_tr_none
#print axioms Agd.Tie.TrC06.packReq_panics_iff
#print axioms Agd.Tie.TrC06.packReq_never_panics
#print axioms Agd.Tie.TrC06.packReq_success
#print axioms Agd.Tie.TrC06.packReq_failure
#print axioms Agd.Tie.TrC06.toI_length
