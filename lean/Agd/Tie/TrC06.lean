import Agd.Gen.TrC06
/-!
# C06: which bytes are decoded, as translated from the source

`Agd.Gen.TrC06.*` are regenerated on every run (`extract/tr.go`) from `ServerQUIC.readQUICMsg`,
`ServerDNS.readTCPMsg` (`internal/dnsserver`) and `UpstreamPlain.readMsg`
(`internal/dnsserver/forward`).  Byte buffers are abstract objects; a window `buf[lo:hi]` handed to a
traced call is shown with the values of its bounds, so "the decoder sees exactly the bytes that were
read for this message" is a statement about the trace.
-/
namespace Agd.Tie.TrC06
open Agd.Gen.TrC06 Agd.TrPrelude

theorem translation_complete : translationFailures = [] := by decide

def names (tr : List (String × List String)) : List String := tr.map (·.1)
/-- Arguments of the calls of `f` in a trace. -/
def callsOf (f : String) (tr : List (String × List String)) : List (List String) :=
  (tr.filter (·.1 = f)).map (·.2)

/-- DoQ: whenever a message is decoded, `Unpack` receives exactly the window `buf[2:n]`, where `n` is
the number of bytes read from this stream — never the rest of the pooled buffer — and only when the
length prefix equals `n - 2`; fewer than 12 bytes are never decoded; the pooled buffer is given back
exactly once, as the last effect, in every run. -/
theorem quic_decodes_own_bytes (s : S_dnsserver_ServerQUIC) (g b : AbsPtr) (dl : Option String)
    (rd : Int × Option String) (plen : Int) (up : Option String) :
    let out := readQUICMsg s g b dl rd plen up
    (callsOf "Unpack" out.2.2 = [] ∨ callsOf "Unpack" out.2.2 = [["buf[2:" ++ toString rd.1 ++ "]"]]) ∧
    (callsOf "Unpack" out.2.2 ≠ [] → 12 ≤ rd.1 ∧ plen = goWrapU 65536 (rd.1 - 2)) ∧
    (names out.2.2).getLast? = some "Put" ∧ (names out.2.2).count "Put" = 1 ∧
    (out.1 = true → out.2.1 = none ∧ up = none) := by
  have e2 : "buf[" ++ Int.repr 2 ++ ":" = "buf[2:" := by decide
  by_cases h1 : rd.1 < 12 <;> cases h2 : rd.2 <;> by_cases h3 : plen = goWrapU 65536 (rd.1 - 2) <;>
    cases up <;> simp [readQUICMsg, callsOf, names, h1, h2, h3, e2] <;> omega

/-- Upstream replies (UDP and TCP): `Unpack` receives exactly `buf[:n]` with `n` the number of bytes
this read returned, and only if `n ≥ 17`; on TCP exactly the announced `length` bytes are read. -/
theorem upstream_decodes_read_bytes (u : S_forward_UpstreamPlain) (network : String) (r1 : Option String)
    (rf : Int × Option String) (up : Option String) (rd : Int × Option String) :
    let out := upstream_readMsg u network r1 rf up rd
    let n := if network = "tcp" then rf.1 else rd.1
    (callsOf "Unpack" out.2.2 = [] ∨ callsOf "Unpack" out.2.2 = [["buf[:" ++ toString n ++ "]"]]) ∧
    (callsOf "Unpack" out.2.2 ≠ [] → 17 ≤ n) ∧
    (out.1 = true → out.2.1 = none ∧ up = none) := by
  by_cases h0 : network = "tcp" <;> cases r1 <;> cases h2 : rf.2 <;> cases h3 : rd.2 <;> cases up <;>
    by_cases h4 : rf.1 < 17 <;> by_cases h5 : rd.1 < 17 <;>
    simp [upstream_readMsg, callsOf, names, h0, h2, h3, h4, h5] <;> omega

/-- TCP/DoT server side: a buffer of exactly the announced length is requested, and a failed read
gives it back and returns no buffer. -/
theorem tcp_buffer_sized_by_prefix (s : S_dnsserver_ServerDNS) (t : Int) (dl rl : Option String) (gb : AbsPtr)
    (rf : Int × Option String) :
    let out := readTCPMsg s t dl rl gb rf
    (dl = none → rl = none → rf.2 ≠ none → out.1 = false ∧ (names out.2.2).getLast? = some "Put") ∧
    (dl = none → rl = none → rf.2 = none → out.1 = gb ∧ "Put" ∉ names out.2.2) := by
  cases dl <;> cases rl <;> cases h : rf.2 <;> simp [readTCPMsg, names, h]

example (s : S_dnsserver_ServerQUIC) :
    callsOf "Unpack" (readQUICMsg s true true none (30, none) 28 none).2.2 = [["buf[2:30]"]] := by
  simp [readQUICMsg, callsOf, goWrapU]; decide

/-- Scans the names of a trace: every `processConn` (which writes `buf[:bufReqLen]`) must have a
`packReq` of its own since the previous `processConn`. -/
def packedBeforeEveryWrite : Bool → List String → Bool
  | _, [] => true
  | fresh, n :: rest =>
    if n = "packReq" then packedBeforeEveryWrite true rest
    else if n = "processConn" then fresh && packedBeforeEveryWrite false rest
    else packedBeforeEveryWrite fresh rest

/-- `exchangeNet` (round 3, after the `fix:` commit): in every run each attempt writes a request
that was packed for this very attempt — the second attempt does not reuse what the failed read left
in the shared buffer — with the length that `packReq` call returned; the pooled buffer is given back
exactly once, as the last effect. -/
theorem exchange_packs_before_every_write (u : S_forward_UpstreamPlain) (network : String) (gb bp : AbsPtr)
    (p1 p2 : Int × Option String) (g c : Option S_pool_Conn × Option String) (r1 r2 : AbsPtr × Option String)
    (retry : Bool) :
    let out := upstream_exchangeNet u network gb bp p1 g r1 retry p2 c r2
    packedBeforeEveryWrite false (names out.2.2) = true ∧
    (names out.2.2).getLast? = some "putBuffer" ∧ (names out.2.2).count "putBuffer" = 1 ∧
    ((callsOf "processConn" out.2.2).map (·.getLast?) = [] ∨
     (callsOf "processConn" out.2.2).map (·.getLast?) = [some (toString p1.1)] ∨
     (callsOf "processConn" out.2.2).map (·.getLast?) = [some (toString p1.1), some (toString p2.1)]) := by
  by_cases h0 : network = "tcp" <;> cases h1 : p1.2 <;> cases h2 : g.2 <;> cases retry <;>
    cases h3 : p2.2 <;> cases h4 : c.2 <;>
    simp [upstream_exchangeNet, callsOf, names, packedBeforeEveryWrite, h0, h1, h2, h3, h4]

example (u : S_forward_UpstreamPlain) :
    names (upstream_exchangeNet u "tcp" true true (50, none) (none, none) (false, some "reset") true
      (50, none) (none, none) (true, none)).2.2 =
      ["getBuffer", "packReq", "Get", "processConn", "packReq", "Create", "processConn", "putBuffer"] := by
  simp [upstream_exchangeNet, names]

end Agd.Tie.TrC06

#print axioms Agd.Tie.TrC06.translation_complete
#print axioms Agd.Tie.TrC06.quic_decodes_own_bytes
#print axioms Agd.Tie.TrC06.upstream_decodes_read_bytes
#print axioms Agd.Tie.TrC06.tcp_buffer_sized_by_prefix
#print axioms Agd.Tie.TrC06.exchange_packs_before_every_write
