import Agd.Gen.TrC06
/-!
# C06: which bytes are decoded, as translated from the source

`Agd.Gen.TrC06.*` are regenerated on every run (`extract/tr.go`) from `ServerQUIC.readQUICMsg`,
`ServerDNS.readTCPMsg` (`internal/dnsserver`) and `UpstreamPlain.readMsg`
(`internal/dnsserver/forward`).  Byte buffers are abstract objects; a window `buf[lo:hi]` handed to a
traced call is shown with the values of its bounds, so "the decoder sees exactly the bytes that were
read for this message" is a statement about the trace.
-/
namespace Agd.Tie.TrC06
open Agd.Gen.TrC06 Agd.TrPrelude

theorem translation_complete : translationFailures = [] := by decide

def names (tr : List (String × List String)) : List String := tr.map (·.1)
/-- Arguments of the calls of `f` in a trace. -/
def callsOf (f : String) (tr : List (String × List String)) : List (List String) :=
  (tr.filter (·.1 = f)).map (·.2)

/-- DoQ: whenever a message is decoded, `Unpack` receives exactly the window `buf[2:n]`, where `n` is
the number of bytes read from this stream — never the rest of the pooled buffer — and only when the
length prefix equals `n - 2`; fewer than 12 bytes are never decoded; the pooled buffer is given back
exactly once, as the last effect, in every run. -/
theorem quic_decodes_own_bytes (s : S_dnsserver_ServerQUIC) (g b : AbsPtr) (dl : Option String)
    (rd : Int × Option String) (plen : Int) (up : Option String) :
    let out := readQUICMsg s g b dl rd plen up
    (callsOf "Unpack" out.2.2 = [] ∨ callsOf "Unpack" out.2.2 = [["buf[2:" ++ toString rd.1 ++ "]"]]) ∧
    (callsOf "Unpack" out.2.2 ≠ [] → 12 ≤ rd.1 ∧ plen = goWrapU 65536 (rd.1 - 2)) ∧
    (names out.2.2).getLast? = some "Put" ∧ (names out.2.2).count "Put" = 1 ∧
    (out.1 = true → out.2.1 = none ∧ up = none) := by
  have e2 : "buf[" ++ Int.repr 2 ++ ":" = "buf[2:" := by decide
  by_cases h1 : rd.1 < 12 <;> cases h2 : rd.2 <;> by_cases h3 : plen = goWrapU 65536 (rd.1 - 2) <;>
    cases up <;> simp [readQUICMsg, callsOf, names, h1, h2, h3, e2] <;> omega

/-- Upstream replies (UDP and TCP): `Unpack` receives exactly `buf[:n]` with `n` the number of bytes
this read returned, and only if `n ≥ 17`; on TCP exactly the announced `length` bytes are read. -/
theorem upstream_decodes_read_bytes (u : S_forward_UpstreamPlain) (network : String) (r1 : Option String)
    (rf : Int × Option String) (up : Option String) (rd : Int × Option String) :
    let out := upstream_readMsg u network r1 rf up rd
    let n := if network = "tcp" then rf.1 else rd.1
    (callsOf "Unpack" out.2.2 = [] ∨ callsOf "Unpack" out.2.2 = [["buf[:" ++ toString n ++ "]"]]) ∧
    (callsOf "Unpack" out.2.2 ≠ [] → 17 ≤ n) ∧
    (out.1 = true → out.2.1 = none ∧ up = none) := by
  by_cases h0 : network = "tcp" <;> cases r1 <;> cases h2 : rf.2 <;> cases h3 : rd.2 <;> cases up <;>
    by_cases h4 : rf.1 < 17 <;> by_cases h5 : rd.1 < 17 <;>
    simp [upstream_readMsg, callsOf, names, h0, h2, h3, h4, h5] <;> omega

/-- TCP/DoT server side: a buffer of exactly the announced length is requested, and a failed read
gives it back and returns no buffer. -/
theorem tcp_buffer_sized_by_prefix (s : S_dnsserver_ServerDNS) (t : Int) (dl rl : Option String) (gb : AbsPtr)
    (rf : Int × Option String) :
    let out := readTCPMsg s t dl rl gb rf
    (dl = none → rl = none → rf.2 ≠ none → out.1 = false ∧ (names out.2.2).getLast? = some "Put") ∧
    (dl = none → rl = none → rf.2 = none → out.1 = gb ∧ "Put" ∉ names out.2.2) := by
  cases dl <;> cases rl <;> cases h : rf.2 <;> simp [readTCPMsg, names, h]

example (s : S_dnsserver_ServerQUIC) :
    callsOf "Unpack" (readQUICMsg s true true none (30, none) 28 none).2.2 = [["buf[2:30]"]] := by
  simp [readQUICMsg, callsOf, goWrapU]; decide

end Agd.Tie.TrC06

#print axioms Agd.Tie.TrC06.translation_complete
#print axioms Agd.Tie.TrC06.quic_decodes_own_bytes
#print axioms Agd.Tie.TrC06.upstream_decodes_read_bytes
#print axioms Agd.Tie.TrC06.tcp_buffer_sized_by_prefix
