import Agd.Gen.TrC14
import Agd.Model.ProfileDB
/-!
# C14: the background clean-ups re-validate under the write lock — on translated source

`Agd.Gen.TrC14.*` are regenerated on every run (`extract/tr.go`) from `internal/profiledb/profiledb.go`:
`attachedDevice` and the four clean-up goroutines `removeDevice`, `removeLinkedIP`,
`removeDedicatedIP`, `removeHumanID`.  The six index maps are abstract: a read `m[k]` is a parameter
holding the CURRENT entry (it is read inside the function, i.e. under the lock), `delete` and the
lock operations are trace entries.  Addresses are carried as strings (`symbolic`).
-/
namespace Agd.Tie.TrC14
open Agd.Gen.TrC14 Agd.TrPrelude

theorem translation_complete : translationFailures = [] := by decide

def names (tr : List (String × List String)) : List String := tr.map (·.1)
def callsOf (f : String) (tr : List (String × List String)) : List (List String) :=
  (tr.filter (·.1 = f)).map (·.2)

/-- `attachedDevice id` yields a device only if the id maps to a profile that exists and lists the
id, and the device record exists; then exactly that profile and device. -/
theorem attached_iff (db : S_profiledb_Default) (id : String) (pid : String × Bool)
    (ok2 : Bool) (dv : Option S_agd_Device) (p : S_agd_Profile) :
    (attachedDevice db id pid (some p, ok2) dv).map (fun r => (r.1, r.2.1)) =
      some (if pid.2 = true ∧ ok2 = true ∧ p.DeviceIDs.contains id = true ∧ dv.isSome = true
            then (some p, dv) else (none, none)) := by
  cases h1 : pid.2 <;> cases ok2 <;> cases h3 : p.DeviceIDs.contains id <;> cases dv <;>
    simp_all [attachedDevice]

/-- The trace of a clean-up that keeps the entry / deletes it (`args`: what `delete` is shown with). -/
def kept (cur : String) : List (String × List String) :=
  [("Lock", []), ("attachedDevice", [cur]), ("Unlock", [])]
def deleted (cur : String) (args : List String) : List (String × List String) :=
  [("Lock", []), ("attachedDevice", [cur]), ("delete", args), ("Unlock", [])]

/-- Linked-IP clean-up: everything happens between `Lock` and `Unlock`; the device that is
re-validated is the one the index maps the address to NOW (`cur`, read under the lock — not an id
captured when the goroutine was started); the entry is kept iff that device is attached and still has
this linked address, and deleted otherwise. -/
theorem linkedIP_cleanup_revalidates (db : S_profiledb_Default) (ip cur : String)
    (p : Option S_agd_Profile) (d : Option S_agd_Device) :
    removeLinkedIP db ip (p, d) cur =
      some (if (match d with | some dev => decide (dev.LinkedIP = ip) | none => false)
            then kept cur else deleted cur ["_", ip]) := by
  cases d with
  | none => simp [removeLinkedIP, kept, deleted]
  | some dev => by_cases h : dev.LinkedIP = ip <;> simp [removeLinkedIP, kept, deleted, h]

/-- Dedicated-IP clean-up: same discipline; kept iff the current owner still lists the address. -/
theorem dedicatedIP_cleanup_revalidates (db : S_profiledb_Default) (ip cur : String)
    (p : Option S_agd_Profile) (d : Option S_agd_Device) :
    removeDedicatedIP db ip (p, d) cur =
      some (if (match d with | some dev => dev.DedicatedIPs.contains ip | none => false)
            then kept cur else deleted cur ["_", ip]) := by
  cases d with
  | none => simp [removeDedicatedIP, kept, deleted]
  | some dev => cases h : dev.DedicatedIPs.contains ip <;> simp_all [removeDedicatedIP, kept, deleted]

/-- Device-id clean-up: the mapping is kept iff the id has an attached device now. -/
theorem device_cleanup_revalidates (db : S_profiledb_Default) (id : String)
    (p : Option S_agd_Profile) (d : Option S_agd_Device) :
    removeDevice db id (p, d) = if d.isSome then kept id else deleted id ["_", id] := by
  cases d <;> simp [removeDevice, kept, deleted]

/-- Human-id clean-up: kept iff the current owner still has this human id AND is in this profile; a
device that moved to another profile does not keep the old profile's entry alive. -/
theorem humanID_cleanup_revalidates (db : S_profiledb_Default) (k : S_profiledb_humanIDKey) (cur : String)
    (p : S_agd_Profile) (d : S_agd_Device) :
    removeHumanID db k (some p, some d) cur =
      some (if d.HumanIDLower = k.lower ∧ p.ID = k.profile then kept cur else deleted cur ["_", "_"]) := by
  by_cases h1 : d.HumanIDLower = k.lower <;> by_cases h2 : p.ID = k.profile <;>
    simp [removeHumanID, kept, deleted, h1, h2]

/-- Without an attached device the human-id entry is deleted (no nil dereference). -/
theorem humanID_cleanup_no_device (db : S_profiledb_Default) (k : S_profiledb_humanIDKey) (cur : String)
    (p : Option S_agd_Profile) :
    removeHumanID db k (p, none) cur = some (deleted cur ["_", "_"]) := by
  simp [removeHumanID, deleted]

/-! ## Production wiring and start-up (round 4): `internal/cmd` `ctxWithOptionalTimeout`, `initProfDB`;
`profiledb` `needsFullSync`, `loadFileCache` -/

/-- The context of a refresh: for `timeout = 0` it is made by `context.WithCancel` (no deadline), for
every other value by `context.WithTimeout(parent, timeout)` — in every run, and the function returns
exactly what that constructor returned. -/
theorem ctx_zero_timeout_has_no_deadline (timeout : Int) (wc wt : AbsPtr × AbsPtr) :
    ctxWithOptionalTimeout timeout wc wt =
      if timeout = 0 then (wc.1, wc.2, [("WithCancel", ["_"])])
      else (wt.1, wt.2, [("WithTimeout", ["_", toString timeout])]) := by
  by_cases h : timeout = 0 <;> simp [ctxWithOptionalTimeout, h]

/-- … which is the model's `ctxDeadline`: no deadline iff the configured timeout is zero. -/
theorem ctx_matches_model (timeout : Nat) (now : Nat) (wc wt : AbsPtr × AbsPtr) :
    (names (ctxWithOptionalTimeout (timeout : Int) wc wt).2.2 = ["WithCancel"]) ↔
      Agd.ProfileDB.ctxDeadline timeout now = none := by
  by_cases h : timeout = 0
  · subst h; simp [ctxWithOptionalTimeout, names, Agd.ProfileDB.ctxDeadline]
  · have h' : ¬ ((timeout : Int) = 0) := by omega
    simp [ctxWithOptionalTimeout, names, Agd.ProfileDB.ctxDeadline, h, h']

/-- `initProfDB`: the initial refresh runs once, under a context made by `ctxWithOptionalTimeout` for
the configured timeout, which is cancelled last; the start goes on (no error) iff the refresh
succeeded or failed with `context.DeadlineExceeded` — the model's `startGoesOn`. -/
theorem initProfDB_spec (db : Option S_profiledb_Default) (timeout : Int) (c : AbsPtr × AbsPtr)
    (refreshErr : Option String) (isDeadline : Bool) :
    let r := initProfDB db timeout c refreshErr isDeadline
    (names r.2).head? = some "ctxWithOptionalTimeout" ∧
    callsOf "ctxWithOptionalTimeout" r.2 = [["_", toString timeout]] ∧
    (callsOf "Refresh" r.2).length = 1 ∧
    (names r.2).getLast? = some "cancel" ∧
    (r.1.isNone = Agd.ProfileDB.startGoesOn
      (match refreshErr with
       | none => .ok
       | some _ => if isDeadline then .deadlineExceeded else .otherError)) := by
  cases refreshErr <;> cases isDeadline <;>
    simp [initProfDB, names, callsOf, Agd.ProfileDB.startGoesOn]

/-- `needsFullSync` is the model's function of the two clock readings and the two configured
intervals. -/
theorem needsFullSync_tr (db : S_profiledb_Default) (sinceFull sinceErr : Int) (errZero : Bool) :
    (needsFullSync db () sinceFull errZero sinceErr).2.1 =
      Agd.ProfileDB.needsFullSync db.fullSyncIvl db.fullSyncRetryIvl sinceFull
        (if errZero then none else some sinceErr) := by
  cases errZero <;> simp [needsFullSync, Agd.ProfileDB.needsFullSync]

/-- `loadFileCache`: `setProfiles` is called — as a FULL replacement, followed by the assignment of
the cache's sync time to `db.syncTime` and `db.lastFullSync` — iff `Load` returned a cache without
error that holds at least one profile and one device; a load error is returned unless it is the
version error, and nothing is applied then. -/
theorem loadFileCache_spec (db : S_profiledb_Default) (w : AbsPtr) (c : Option S_internal_FileCache)
    (lerr : Option String) (isVer : Bool) :
    (loadFileCache db () w (c, lerr) isVer ()).map (fun r => (r.2.1, callsOf "setProfiles" r.2.2,
        (names r.2.2).filter (fun n => n = "set db.syncTime" ∨ n = "set db.lastFullSync"))) =
      some (match lerr, c with
        | some e, _ => (if isVer then none else some e, [], [])
        | none, none => (none, [], [])
        | none, some fc =>
          if fc.Profiles.length = 0 ∨ fc.Devices.length = 0 then (none, [], [])
          else (none, [["_", "_", "_", "true"]], ["set db.syncTime", "set db.lastFullSync"])) := by
  cases lerr with
  | some e => cases isVer <;> simp [loadFileCache, callsOf, names]
  | none =>
    cases c with
    | none => simp [loadFileCache, callsOf, names]
    | some fc =>
      have ht : toString true = "true" := by decide
      by_cases h1 : fc.Profiles.length = 0 <;> by_cases h2 : fc.Devices.length = 0 <;>
        simp [loadFileCache, callsOf, names, h1, h2, ht]

end Agd.Tie.TrC14

#print axioms Agd.Tie.TrC14.translation_complete
#print axioms Agd.Tie.TrC14.attached_iff
#print axioms Agd.Tie.TrC14.linkedIP_cleanup_revalidates
#print axioms Agd.Tie.TrC14.dedicatedIP_cleanup_revalidates
#print axioms Agd.Tie.TrC14.device_cleanup_revalidates
#print axioms Agd.Tie.TrC14.humanID_cleanup_revalidates
#print axioms Agd.Tie.TrC14.humanID_cleanup_no_device
#print axioms Agd.Tie.TrC14.ctx_zero_timeout_has_no_deadline
#print axioms Agd.Tie.TrC14.ctx_matches_model
#print axioms Agd.Tie.TrC14.initProfDB_spec
#print axioms Agd.Tie.TrC14.needsFullSync_tr
#print axioms Agd.Tie.TrC14.loadFileCache_spec
