import Agd.Gen.TrC14
/-!
# C14: the background clean-ups re-validate under the write lock — on translated source

`Agd.Gen.TrC14.*` are regenerated on every run (`extract/tr.go`) from `internal/profiledb/profiledb.go`:
`attachedDevice` and the four clean-up goroutines `removeDevice`, `removeLinkedIP`,
`removeDedicatedIP`, `removeHumanID`.  The six index maps are abstract: a read `m[k]` is a parameter
holding the CURRENT entry (it is read inside the function, i.e. under the lock), `delete` and the
lock operations are trace entries.  Addresses are carried as strings (`symbolic`).
-/
namespace Agd.Tie.TrC14
open Agd.Gen.TrC14 Agd.TrPrelude

theorem translation_complete : translationFailures = [] := by decide

def names (tr : List (String × List String)) : List String := tr.map (·.1)
def callsOf (f : String) (tr : List (String × List String)) : List (List String) :=
  (tr.filter (·.1 = f)).map (·.2)

/-- `attachedDevice id` yields a device only if the id maps to a profile that exists and lists the
id, and the device record exists; then exactly that profile and device. -/
theorem attached_iff (db : S_profiledb_Default) (id : String) (pid : String × Bool)
    (ok2 : Bool) (dv : Option S_agd_Device) (p : S_agd_Profile) :
    (attachedDevice db id pid (some p, ok2) dv).map (fun r => (r.1, r.2.1)) =
      some (if pid.2 = true ∧ ok2 = true ∧ p.DeviceIDs.contains id = true ∧ dv.isSome = true
            then (some p, dv) else (none, none)) := by
  cases h1 : pid.2 <;> cases ok2 <;> cases h3 : p.DeviceIDs.contains id <;> cases dv <;>
    simp_all [attachedDevice]

/-- The trace of a clean-up that keeps the entry / deletes it (`args`: what `delete` is shown with). -/
def kept (cur : String) : List (String × List String) :=
  [("Lock", []), ("attachedDevice", [cur]), ("Unlock", [])]
def deleted (cur : String) (args : List String) : List (String × List String) :=
  [("Lock", []), ("attachedDevice", [cur]), ("delete", args), ("Unlock", [])]

/-- Linked-IP clean-up: everything happens between `Lock` and `Unlock`; the device that is
re-validated is the one the index maps the address to NOW (`cur`, read under the lock — not an id
captured when the goroutine was started); the entry is kept iff that device is attached and still has
this linked address, and deleted otherwise. -/
theorem linkedIP_cleanup_revalidates (db : S_profiledb_Default) (ip cur : String)
    (p : Option S_agd_Profile) (d : Option S_agd_Device) :
    removeLinkedIP db ip (p, d) cur =
      some (if (match d with | some dev => decide (dev.LinkedIP = ip) | none => false)
            then kept cur else deleted cur ["_", ip]) := by
  cases d with
  | none => simp [removeLinkedIP, kept, deleted]
  | some dev => by_cases h : dev.LinkedIP = ip <;> simp [removeLinkedIP, kept, deleted, h]

/-- Dedicated-IP clean-up: same discipline; kept iff the current owner still lists the address. -/
theorem dedicatedIP_cleanup_revalidates (db : S_profiledb_Default) (ip cur : String)
    (p : Option S_agd_Profile) (d : Option S_agd_Device) :
    removeDedicatedIP db ip (p, d) cur =
      some (if (match d with | some dev => dev.DedicatedIPs.contains ip | none => false)
            then kept cur else deleted cur ["_", ip]) := by
  cases d with
  | none => simp [removeDedicatedIP, kept, deleted]
  | some dev => cases h : dev.DedicatedIPs.contains ip <;> simp_all [removeDedicatedIP, kept, deleted]

/-- Device-id clean-up: the mapping is kept iff the id has an attached device now. -/
theorem device_cleanup_revalidates (db : S_profiledb_Default) (id : String)
    (p : Option S_agd_Profile) (d : Option S_agd_Device) :
    removeDevice db id (p, d) = if d.isSome then kept id else deleted id ["_", id] := by
  cases d <;> simp [removeDevice, kept, deleted]

/-- Human-id clean-up: kept iff the current owner still has this human id AND is in this profile; a
device that moved to another profile does not keep the old profile's entry alive. -/
theorem humanID_cleanup_revalidates (db : S_profiledb_Default) (k : S_profiledb_humanIDKey) (cur : String)
    (p : S_agd_Profile) (d : S_agd_Device) :
    removeHumanID db k (some p, some d) cur =
      some (if d.HumanIDLower = k.lower ∧ p.ID = k.profile then kept cur else deleted cur ["_", "_"]) := by
  by_cases h1 : d.HumanIDLower = k.lower <;> by_cases h2 : p.ID = k.profile <;>
    simp [removeHumanID, kept, deleted, h1, h2]

/-- Without an attached device the human-id entry is deleted (no nil dereference). -/
theorem humanID_cleanup_no_device (db : S_profiledb_Default) (k : S_profiledb_humanIDKey) (cur : String)
    (p : Option S_agd_Profile) :
    removeHumanID db k (p, none) cur = some (deleted cur ["_", "_"]) := by
  simp [removeHumanID, deleted]

end Agd.Tie.TrC14

#print axioms Agd.Tie.TrC14.translation_complete
#print axioms Agd.Tie.TrC14.attached_iff
#print axioms Agd.Tie.TrC14.linkedIP_cleanup_revalidates
#print axioms Agd.Tie.TrC14.dedicatedIP_cleanup_revalidates
#print axioms Agd.Tie.TrC14.device_cleanup_revalidates
#print axioms Agd.Tie.TrC14.humanID_cleanup_revalidates
#print axioms Agd.Tie.TrC14.humanID_cleanup_no_device
