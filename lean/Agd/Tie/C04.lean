import Agd.Gen.C04
/-! Tie theorems for C04: the source facts the cache model was written against still hold in the repository.
Each fact is a small syntactic fragment (a condition, the arguments of one call, one right-hand side). -/
namespace Agd.Tie.C04
open Agd.Gen.C04

/-- `fromCacheItem` (simple): the recomputed TTL is used only when positive; OPT records are dropped from the additional section. -/
theorem simple_from_item_conds_src : simple_from_item_conds = "timeLeft > 0 | r.Header().Rrtype == dns.TypeOPT" := by decide
/-- the `else` branch added by the fix: no time left ⇒ TTL 0 (`simpleTTL`, not `simpleTTLOrig`). -/
theorem simple_from_item_newttl_src : simple_from_item_newttl = "0" := by decide
/-- `math.Round` of seconds: half away from zero (`simpleTTL`). -/
theorem simple_time_left_src : simple_time_left = "math.Round(float64(newTTL) - time.Since(item.when).Seconds())" := by decide
/-- `set`: skip when the lowest TTL is 0 or the message is not cacheable; the override spares SERVFAIL (`prepStore`). -/
theorem simple_set_conds_src : simple_set_conds = "m == nil | ttl == 0 || !isCacheable(msg) | m.overrideTTL && msg.Rcode != dns.RcodeServerFailure" := by decide
/-- `set` keys the entry by the *request* (since the round-3 fix; `Simple.keyOfReq` on both sides), `get` does the same,
and `Wrap` hands `set` the client's request together with the response. -/
theorem simple_set_key_src : simple_set_key = "req" := by decide
theorem simple_get_key_src : simple_get_key = "req" := by decide
theorem simple_wrap_set_src : simple_wrap_set = "req, resp" := by decide
theorem simple_wrap_get_src : simple_wrap_get = "req" := by decide
theorem simple_set_expire_src : simple_set_expire = "key, i, exp" := by decide
theorem simple_key_qtype_src : simple_key_qtype = "b[1:], q.Qtype" := by decide
theorem simple_key_qclass_src : simple_key_qclass = "b[3:], q.Qclass" := by decide
/-- names are case-folded. -/
theorem simple_key_name_src : simple_key_name = "strings.ToLower(q.Name)" := by decide
/-- DO comes from the OPT record of the keyed message. -/
theorem simple_key_do_src : simple_key_do = "opt != nil && opt.Do()" := by decide
theorem simple_cacheable_cases_src : simple_cacheable_cases = "dns.RcodeSuccess | dns.RcodeNameError,dns.RcodeServerFailure | default" := by decide
theorem simple_cacheable_guard_src : simple_cacheable_guard = "msg.Truncated || len(msg.Question) != 1" := by decide
theorem simple_noerror_cases_src : simple_noerror_cases = "qt | dns.TypeCNAME,dns.TypeSIG | default" := by decide
theorem simple_servfail_max_src : simple_servfail_max = "msg.Rcode == dns.RcodeServerFailure && ttl > servFailMaxCacheTTL | ttl == math.MaxUint32 | default" := by decide
theorem simple_ttl_if_lower_src : simple_ttl_if_lower = "r.Minttl > 0 && r.Minttl < ttl | httl < ttl" := by decide
/-- `fromCacheItem` (ECS): `roundDiv` of the remaining time when positive, else 0 (`ecsTTL`). -/
theorem ecs_from_item_cond_src : ecs_from_item_cond = "timeLeft > 0" := by decide
theorem ecs_from_item_newttl_src : ecs_from_item_newttl = "uint32(roundDiv(timeLeft, time.Second))" := by decide
theorem ecs_from_item_else_src : ecs_from_item_else = "0" := by decide
/-- `roundDiv` rounds to nearest. -/
theorem ecs_round_div_src : ecs_round_div = "(num + denom/2) / denom | (num - denom/2) / denom" := by decide
theorem ecs_set_conds_src : ecs_set_conds = "ttl == 0 || !isCacheable(resp) | respIsECSDependent | mw.overrideTTL && resp.Rcode != dns.RcodeServerFailure" := by decide
theorem ecs_set_expire_src : ecs_set_expire = "key, toCacheItem(cachedResp, cr.host), exp" := by decide
theorem ecs_key_conds_src : ecs_key_conds = "respIsECSDependent" := by decide
theorem ecs_key_do_src : ecs_key_do = "mathutil.BoolToNumber[byte](cr.reqDO)" := by decide
/-- `get`: no-ECS cache first; the ECS-aware cache is skipped for declined ECS (`Ecs.lookup`). -/
theorem ecs_get_conds_src : ecs_get_conds = "ok | cr.isECSDeclined | ok" := by decide
/-- `setRespAD`. -/
theorem ecs_set_resp_ad_src : ecs_set_resp_ad = "resp.AuthenticatedData && (reqAD || reqDO)" := by decide
/-- `filterRR`: DNSSEC records survive iff DO, or the type is the excepted one (`Ecs.keepRR`). -/
theorem ecs_filter_cases_src : ecs_filter_cases = "reqDo,!isDNSSEC(rr),rrType == except | default" := by decide
theorem ecs_cacheable_cases_src : ecs_cacheable_cases = "dns.RcodeSuccess | dns.RcodeNameError,dns.RcodeServerFailure | default" := by decide
theorem ecs_noerror_cases_src : ecs_noerror_cases = "qt | dns.TypeCNAME,dns.TypeSIG | default" := by decide
theorem dnsmsg_lowest_cases_src : dnsmsg_lowest_cases = "msg.Rcode == dns.RcodeServerFailure && ttl > ServFailMaxCacheTTL | ttl == math.MaxUint32 | default" := by decide
theorem dnsmsg_ttl_if_lower_cond_src : dnsmsg_ttl_if_lower_cond = "r.Minttl > 0 && r.Minttl < ttl" := by decide
theorem dnsmsg_ttl_if_lower_ret_src : dnsmsg_ttl_if_lower_ret = "ttl | min(r.Header().Ttl, ttl)" := by decide
/-- `SetMinTTL` raises (never lowers) answer TTLs (`raiseTTL`). -/
theorem dnsmsg_set_min_ttl_src : dnsmsg_set_min_ttl = "max(h.Ttl, minTTL)" := by decide

/-- `itemFromCache`: a key collision of the 64-bit hash is detected by comparing the stored host (the
model takes the hash as injective; this check is what makes that sound for the name part). -/
theorem ecs_item_host_check_src : ecs_item_host_check = "!ok | item.host != cr.host" := by decide
/-- `toCacheKey` (ECS): what is hashed, in this order (`Key.noecs` / `Key.ecs`). -/
theorem ecs_key_host_src : ecs_key_host = "cr.host" := by decide
theorem ecs_key_qtype_src : ecs_key_qtype = "buf[:2], cr.qType" := by decide
theorem ecs_key_qclass_src : ecs_key_qclass = "buf[2:4], cr.qClass" := by decide
theorem ecs_key_fam_src : ecs_key_fam = "mathutil.BoolToNumber[byte](addr.Is6())" := by decide
theorem ecs_key_writes_src : ecs_key_writes = "WriteString,Write,Write,WriteByte,WriteByte" := by decide
theorem ecs_key_write_args_src : ecs_key_write_args = "byte(cr.subnet.Bits())" := by decide
/-- The caches keep private copies: `set` clones what it stores, `fromCacheItem` clones what it serves
(`Store.put` / `hit` work on values). -/
theorem ecs_set_clones_src : ecs_set_clones = "resp" := by decide
theorem ecs_from_item_clones_src : ecs_from_item_clones = "item.msg" := by decide
theorem ecs_from_item_calls_src : ecs_from_item_calls = "FindLowestTTL,Clone,SetRcode,setRespAD" := by decide
theorem simple_to_item_copy_src : simple_to_item_copy = "1" := by decide
theorem simple_from_item_copies_src : simple_from_item_copies = "3" := by decide
/-- `respIsECSDependent` (`Ecs.respDep`). -/
theorem ecs_resp_dep_cond_src : ecs_resp_dep_cond = "scope == 0" := by decide
theorem ecs_resp_dep_rets_src : ecs_resp_dep_rets = "false | !FakeECSFQDNs.Has(fqdn)" := by decide
/-- `setECS` creates a missing OPT with DO set on the upstream request (`Ecs.fwdDO`). -/
theorem ecs_set_ecs_do_src : ecs_set_ecs_do = "dnsmsg.DefaultEDNSUDPSize, !isResp || msg.AuthenticatedData" := by decide
/-- `writeUpstreamResponse`: filter, store, only then mask AD for this client (`Ecs.step`: stored message
before `setAD`). -/
theorem ecs_upstream_order_src : ecs_upstream_order = "rmHopToHopData,set,setRespAD,WriteMsg" := by decide
theorem ecs_declined_src : ecs_declined = "ri.ECS != nil && ri.ECS.Subnet.Bits() == 0" := by decide
theorem ecs_req_do_src : ecs_req_do = "dnsmsg.IsDO(req)" := by decide
theorem dnsmsg_servfail_max_src : dnsmsg_servfail_max = "30" := by decide

/-! Round 4: production wiring.  The simple cache can be built by `dnssvc.NewHandlers` only once per
process (its metrics register globally), so besides the one stack the harness builds from a
configuration file these facts pin the field mapping. -/
def wireSimpleExpected : String := "&cache.MiddlewareConfig{ MetricsListener: dnssrvprom.NewCacheMetricsListener(metrics.Namespace()), Count: conf.NoECSCount, MinTTL: conf.MinTTL, OverrideTTL: conf.OverrideCacheTTL, }"
def wireECSExpected : String := "&ecscache.MiddlewareConfig{ Cloner: c.Cloner, Logger: c.BaseLogger.With(slogutil.KeyPrefix, \"ecscache\"), CacheManager: c.CacheManager, GeoIP: c.GeoIP, NoECSCount: conf.NoECSCount, ECSCount: conf.ECSCount, MinTTL: conf.MinTTL, OverrideTTL: conf.OverrideCacheTTL, }"
theorem wire_simple_args_src : Gen.C04.wire_simple_args = wireSimpleExpected := by
  unfold Gen.C04.wire_simple_args wireSimpleExpected; rfl
theorem wire_ecs_args_src : Gen.C04.wire_ecs_args = wireECSExpected := by
  unfold Gen.C04.wire_ecs_args wireECSExpected; rfl
theorem wire_builder_src : Gen.C04.wire_builder_has_toInternal = "1" := by decide

/-! Round 5.  (a) The CNAME-rewrite path of the main middleware: the request information handed to
the caches below carries the REWRITTEN host (the ECS cache keys on `ri.Host`), in a new context,
together with the rewritten request.  (b) What both caches hand to the next handler is the client's
request resp. a clone of it: header bits such as CD and AD reach the upstream unchanged (the known
findings `*:cd-not-in-key`, `*:ad-request-not-in-key` rest on it). -/
def rewriteHostExpected : String := "agdnet.NormalizeDomain(modReq.Question[0].Name)"
def rewriteReturnsExpected : String := "ctx, origRW, fctx.originalRequest | ctx, origRW, modReq"
theorem rewrite_host_src : Gen.C04.rewrite_host_rhs = rewriteHostExpected := by
  unfold Gen.C04.rewrite_host_rhs rewriteHostExpected; rfl
theorem rewrite_ctx_src : Gen.C04.rewrite_ctx_args = "ctx, modReqInfo" := by decide
theorem rewrite_returns_src : Gen.C04.rewrite_returns = rewriteReturnsExpected := by
  unfold Gen.C04.rewrite_returns rewriteReturnsExpected; rfl
theorem ecs_fwd_clone_src : Gen.C04.ecs_fwd_clone_args = "req" := by decide
theorem ecs_fwd_next_src : Gen.C04.ecs_fwd_next_args = "ctx, nrw, ecsReq" := by decide
theorem simple_fwd_next_src : Gen.C04.simple_fwd_next_args = "ctx, nrw, req" := by decide

end Agd.Tie.C04
