import Agd.Gen.TrC08
import Agd.Model.Normalize
/-!
# C08: `maxDNSSize` of the model is the translated source

`Agd.Gen.TrC08.maxDNSSize` is regenerated from `internal/dnsserver/normalize.go` on every run
(`extract/tr.go`; the constants `dns.MaxMsgSize`, `dns.MinMsgSize` and `NetworkUDP` are resolved by
the Go type checker from the dependency's export data, not copied by hand).
-/
namespace Agd.Tie.TrC08
open Agd.Gen.TrC08 Agd.Normalize

theorem translation_complete : translationFailures = [] := by decide

/-- The size limit the model's `normalize` truncates to is the one the source computes, for every
network name, advertised size and configured maximum. -/
theorem maxDNSSize_tr (network : String) (edns cfg : Nat) :
    Agd.Gen.TrC08.maxDNSSize network edns cfg =
      ((Agd.Normalize.maxDNSSize (decide (network = "udp")) edns cfg : Nat) : Int) := by
  unfold Agd.Gen.TrC08.maxDNSSize Agd.Normalize.maxDNSSize maxMsgSize minMsgSize
  by_cases h : network = "udp" <;> simp [h] <;> omega

/-- The property's formula, on the translated definition itself: max(512, min(advertised, configured))
on UDP, 65535 elsewhere. -/
theorem maxDNSSize_formula (network : String) (edns cfg : Int) :
    Agd.Gen.TrC08.maxDNSSize network edns cfg =
      if network = "udp" then max 512 (min edns cfg) else 65535 := by
  unfold Agd.Gen.TrC08.maxDNSSize
  by_cases h : network = "udp" <;> simp [h] <;> omega

example : Agd.Gen.TrC08.maxDNSSize "udp" 1232 4096 = 1232 ∧ Agd.Gen.TrC08.maxDNSSize "udp" 100 4096 = 512 ∧
    Agd.Gen.TrC08.maxDNSSize "tcp" 100 4096 = 65535 := by decide

end Agd.Tie.TrC08

#print axioms Agd.Tie.TrC08.translation_complete
#print axioms Agd.Tie.TrC08.maxDNSSize_tr
#print axioms Agd.Tie.TrC08.maxDNSSize_formula
