import Agd.Gen.TrC08
import Agd.Model.Normalize
/-!
# C08: the size / OPT / padding / keep-alive logic of the write paths, as translated from the source

`Agd.Gen.TrC08.*` are regenerated from `internal/dnsserver/{normalize,msg,protocol,serverdnstcp,
serverhttps,serverquic}.go` on every run (`extract/tr.go`).  `dns.Msg`, `dns.OPT` and the EDNS options
are abstract: their getters are opaque values (parameters), their setters, field assignments and
allocations are entries of the returned *trace*, in order, with the scalar values involved.  The
theorems are stated on the translated code itself, for all values of the parameters; where the
hand-written model (`Agd.Model.Normalize`) has a counterpart, the two are proved equal.
-/
namespace Agd.Tie.TrC08
open Agd.Gen.TrC08 Agd.TrPrelude

theorem translation_complete : translationFailures = [] := by decide

abbrev Trace := List (String × List String)

/-- Names of the entries of a trace. -/
def names (tr : Trace) : List String := tr.map (·.1)
/-- Argument lists of the entries called `n`. -/
def argsOf (n : String) (tr : Trace) : List (List String) := (tr.filter (·.1 == n)).map (·.2)
/-- What happens before / after the first entry called `n`. -/
def before (n : String) : Trace → Trace
  | [] => []
  | x :: r => if x.1 = n then [] else x :: before n r
def after (n : String) : Trace → Trace
  | [] => []
  | x :: r => if x.1 = n then r else after n r

/-! ## `maxDNSSize` -/

/-- The size limit the model's `normalize` truncates to is the one the source computes, for every
network name, advertised size and configured maximum. -/
theorem maxDNSSize_tr (network : String) (edns cfg : Nat) :
    Agd.Gen.TrC08.maxDNSSize network edns cfg =
      ((Agd.Normalize.maxDNSSize (decide (network = "udp")) edns cfg : Nat) : Int) := by
  unfold Agd.Gen.TrC08.maxDNSSize Agd.Normalize.maxDNSSize Agd.Normalize.maxMsgSize Agd.Normalize.minMsgSize
  by_cases h : network = "udp" <;> simp [h] <;> omega

/-- The property's formula, on the translated definition itself: max(512, min(advertised, configured))
on UDP, 65535 elsewhere. -/
theorem maxDNSSize_formula (network : String) (edns cfg : Int) :
    Agd.Gen.TrC08.maxDNSSize network edns cfg =
      if network = "udp" then max 512 (min edns cfg) else 65535 := by
  unfold Agd.Gen.TrC08.maxDNSSize
  by_cases h : network = "udp" <;> simp [h] <;> omega

example : Agd.Gen.TrC08.maxDNSSize "udp" 1232 4096 = 1232 ∧ Agd.Gen.TrC08.maxDNSSize "udp" 100 4096 = 512 ∧
    Agd.Gen.TrC08.maxDNSSize "tcp" 100 4096 = 65535 := by decide

/-! ## Protocol predicates -/

/-- Padding is supported exactly by DoH (3), DoQ (4) and DoT (5). -/
theorem padding_support_iff (p : Int) :
    Protocol_HasPaddingSupport p = true ↔ p = 3 ∨ p = 4 ∨ p = 5 := by
  simp [Protocol_HasPaddingSupport, Protocol_IsStdEncrypted]; omega

/-- The protocol name (`Protocol.String`) of each transport of the model. -/
def protoName : Agd.Normalize.Transport → String
  | .udp | .tcp => "dns"
  | .dot => "dot" | .doh => "doh" | .doq => "doq"
  | .dcUdp | .dcTcp => "dnscrypt"

/-- `Transport.hasPadding` of the model is `Protocol.HasPaddingSupport` of the source: for every valid
protocol constant `p` whose name is the transport's. -/
theorem hasPadding_tr (p : Int) (fallback : String) (t : Agd.Normalize.Transport)
    (hvalid : p = 3 ∨ p = 4 ∨ p = 5 ∨ p = 8 ∨ p = 9) (h : Protocol_String p fallback = protoName t) :
    Protocol_HasPaddingSupport p = t.hasPadding := by
  rcases hvalid with h' | h' | h' | h' | h' <;> subst h' <;> cases t <;>
    simp_all [Protocol_String, protoName, Protocol_HasPaddingSupport, Protocol_IsStdEncrypted,
      Agd.Normalize.Transport.hasPadding]

example : Protocol_String 5 "" = protoName .dot ∧ Protocol_HasPaddingSupport 5 = true := by decide

/-! ## `normalizeTCP`, `normalize` -/

/-- Stream transports normalise with network `tcp` and cap 65535, passing their protocol on. -/
theorem normalizeTCP_args (proto : Int) :
    normalizeTCP proto = [("normalize", ["tcp", toString proto, "_", "_", toString (65535 : Int)])] := by
  simp [normalizeTCP]

/-- Hence the limit they truncate to is 65535 whatever the client advertised. -/
theorem stream_limit (edns : Int) : Agd.Gen.TrC08.maxDNSSize "tcp" edns 65535 = 65535 := by
  simp [Agd.Gen.TrC08.maxDNSSize]

section normalize
variable (network : String) (proto cap : Int) (reqOpt : AbsPtr) (udp : Int) (respOpt : AbsPtr)
  (dobit : Bool) (filt : AbsPtr)

/- Unfold `normalize` in the current case and make the rendered numbers atoms (`simp` must not try to
evaluate `toString` of a symbolic integer). -/
set_option hygiene false in
local macro "norm_unfold" : tactic => `(tactic| (
  simp only [normalize, h, Bool.false_eq_true, ↓reduceIte, Bool.not_true, Bool.not_false]
  try generalize toString (Agd.Gen.TrC08.maxDNSSize network udp cap) = s
  try generalize toString (Agd.Gen.TrC08.maxDNSSize network 0 cap) = s0
  try generalize toString udp = u
  try generalize toString (0 : Int) = z
  try generalize toString (41 : Int) = ty))

/-- In every path `truncate` is called exactly once, with the size `maxDNSSize` computes from the
network, the client's advertised size (0 without a request OPT) and the cap. -/
theorem normalize_truncates_once :
    argsOf "truncate" (normalize network proto cap reqOpt udp respOpt dobit filt) =
      [["_", toString (Agd.Gen.TrC08.maxDNSSize network (if reqOpt then udp else 0) cap)]] := by
  cases reqOpt <;> cases respOpt <;> cases dobit <;> cases h : Protocol_HasPaddingSupport proto <;>
    norm_unfold <;> simp [argsOf]

/-- A query without OPT: nothing is added to the response — no OPT record, no size echo, no padding. -/
theorem normalize_no_opt :
    let tr := normalize network proto cap false udp respOpt dobit filt
    "new dns.OPT" ∉ names tr ∧ "SetUDPSize" ∉ names tr ∧ "padAnswer" ∉ names tr ∧
      "set resp.Extra" ∉ names tr := by
  have h := True.intro
  norm_unfold; simp [names]

/-- A query with OPT, response with its own OPT: version 0 and the client's UDP size are written into
it, before `truncate`; no second OPT record is made; DO is set iff the client set it. -/
theorem normalize_opt_echo_own :
    let tr := normalize network proto cap true udp true dobit filt
    ("SetVersion", [toString (0 : Int)]) ∈ before "truncate" tr ∧
      ("SetUDPSize", [toString udp]) ∈ before "truncate" tr ∧ "new dns.OPT" ∉ names tr ∧
      (("SetDo", []) ∈ tr ↔ dobit = true) := by
  cases dobit <;> cases h : Protocol_HasPaddingSupport proto <;> norm_unfold <;> simp [names, before]

/-- A query with OPT, response without: an OPT record whose class field is the client's UDP size (and
nothing in the TTL field, i.e. version 0) is made from the filtered request options and appended to the
additional section, before `truncate`. -/
theorem normalize_opt_echo_synth :
    let tr := normalize network proto cap true udp false dobit filt
    ∃ args, ("new dns.OPT", args) ∈ before "truncate" tr ∧ ("Hdr.Class=" ++ toString udp) ∈ args ∧
      ("Hdr.Rrtype=" ++ toString (41 : Int)) ∈ args ∧ args.length = 4 ∧
      "filterUnsupportedOptions" ∈ names (before "new dns.OPT" tr) ∧
      "set resp.Extra" ∈ names (before "truncate" tr) ∧ "SetUDPSize" ∉ names tr := by
  cases h : Protocol_HasPaddingSupport proto <;> norm_unfold <;> simp [names, before]

/-- `padAnswer` is called iff the query has OPT and the protocol supports padding — by
`padding_support_iff` only on DoH, DoQ, DoT — and only after `truncate`. -/
theorem normalize_padding_iff :
    let tr := normalize network proto cap reqOpt udp respOpt dobit filt
    ("padAnswer" ∈ names tr ↔ reqOpt = true ∧ Protocol_HasPaddingSupport proto = true) ∧
      "padAnswer" ∉ names (before "truncate" tr) := by
  cases reqOpt <;> cases respOpt <;> cases dobit <;> cases h : Protocol_HasPaddingSupport proto <;>
    norm_unfold <;> simp [names, before]

/-- After `truncate` the OPT record is not touched any more by `normalize` itself (only compression is
switched on and, possibly, `padAnswer` runs). -/
theorem normalize_after_truncate :
    ∀ n ∈ names (after "truncate" (normalize network proto cap reqOpt udp respOpt dobit filt)),
      n = "set resp.Compress" ∨ n = "padAnswer" := by
  cases reqOpt <;> cases respOpt <;> cases dobit <;> cases h : Protocol_HasPaddingSupport proto <;>
    norm_unfold <;> simp [names, after]

end normalize

example : argsOf "truncate" (normalize "udp" 8 4096 true 1232 false false true) = [["_", "1232"]] := by
  decide

/-! ## `truncate` -/

section truncate
variable (size : Int) (tc : Bool) (opt : AbsPtr) (nopt na nns ne len : Int)

/-- The library's `Truncate` is called first, with exactly the size given. -/
theorem truncate_first :
    (truncate size tc opt nopt na nns ne len).head? = some ("Truncate", [toString size]) := by
  unfold truncate; cases tc <;> simp <;> split <;> simp

/-- The answer section is removed iff the TC bit is set after `Truncate`. -/
theorem truncate_answers_iff :
    ("set resp.Answer", ["nil"]) ∈ truncate size tc opt nopt na nns ne len ↔ tc = true := by
  unfold truncate; cases tc <;> simp <;> split <;> simp

/-- The options of the OPT record are dropped iff there is an OPT record with options, it is the only
record left, and the message is still longer than the size. -/
theorem truncate_drops_options_iff :
    ("set opt.Option", ["nil"]) ∈ truncate size tc opt nopt na nns ne len ↔
      opt = true ∧ nopt > 0 ∧ na + nns + ne = 1 ∧ len > size := by
  unfold truncate; cases tc <;> simp <;> split <;> simp_all

end truncate

open Agd.Normalize in
/-- The model's `truncate` (answers removed on TC) is the translated one. -/
theorem truncate_answers_tr (exempt : Bool) (size : Nat) (r : Resp) (o : Option Opt) (opt : AbsPtr)
    (nopt na nns ne len : Int) :
    (Agd.Normalize.truncate exempt size r o).ka =
      if ("set resp.Answer", ["nil"]) ∈ Agd.Gen.TrC08.truncate size (msgTruncate exempt size r o).tc opt nopt na nns ne len
      then 0 else (msgTruncate exempt size r o).ka := by
  simp only [truncate_answers_iff]; unfold Agd.Normalize.truncate
  cases h : (msgTruncate exempt size r o).tc <;> simp [h]

open Agd.Normalize in
/-- The model's `dropOpts` is the translated option-removal condition, read with the model's
quantities: options present, records kept (the OPT record itself is in the additional section), and
`Len()` of what is left. -/
theorem dropOpts_tr (size : Nat) (r : Resp) (c : Cut) (o : Opt) (tc : Bool) :
    dropOpts size r c (some o) =
      if ("set opt.Option", ["nil"]) ∈ Agd.Gen.TrC08.truncate size tc true o.opts.length c.ka c.kn (c.ke + 1)
            (finalLen r c (some o))
      then some { o with opts := [] } else some o := by
  have hk : ((c.ka : Int) + c.kn + (c.ke + 1) = 1) ↔ (c.ka = 0 ∧ c.kn = 0 ∧ c.ke = 0) := by omega
  have hl : ((finalLen r c (some o) : Nat) : Int) > (size : Int) ↔ finalLen r c (some o) > size := by omega
  simp only [truncate_drops_options_iff, hk, hl]; unfold dropOpts
  cases hopts : o.opts <;> simp [hopts, and_assoc]

/-! ## `padAnswer` -/

section pad
variable (reqPad respPad : AbsPtr) (draw : Int)

/-- No padding option in the request: `padAnswer` does nothing at all. -/
theorem pad_only_when_requested : padAnswer false respPad draw = [] := by simp [padAnswer]

/-- Otherwise `rand.Intn(31)` is drawn and the padding becomes the first `draw + 1` bytes of the
buffer; a padding option is allocated iff the response has none. -/
theorem pad_length :
    let tr := padAnswer true respPad draw
    ("Intn", [toString (31 : Int)]) ∈ tr ∧
      tr.getLast? = some ("set paddingOpt.Padding",
        ["respPadBuf[" ++ ":" ++ toString (draw + 1) ++ ":" ++ toString (draw + 1) ++ "]"]) ∧
      ("new dns.EDNS0_PADDING" ∈ names tr ↔ respPad = false) := by
  cases respPad <;> simp [padAnswer, names]

/-- For every draw `rand.Intn(31)` can return, the length is the model's `padLenOf`, and within 1..31
(so within the 32-byte buffer). -/
theorem padLen_tr (d : Nat) (h : d < 31) :
    ((d : Int) + 1) = (Agd.Normalize.padLenOf d : Nat) ∧ 1 ≤ (d : Int) + 1 ∧ (d : Int) + 1 ≤ 31 := by
  unfold Agd.Normalize.padLenOf; omega

end pad

example : (padAnswer true false 30).getLast? = some ("set paddingOpt.Padding", ["respPadBuf[:31:31]"]) := by
  decide

/-! ## `tcpResponseWriter.addTCPKeepAlive` -/

section keepalive
variable (r : S_dnsserver_tcpResponseWriter) (reqOpt respOpt reqKA respKA : AbsPtr) (ms : Int)

/-- The keep-alive option is touched only when the query has OPT with the keep-alive option (and the
response has OPT); otherwise nothing happens. -/
theorem keepalive_only_when_requested
    (h : addTCPKeepAlive r reqOpt respOpt reqKA respKA ms ≠ []) :
    reqOpt = true ∧ respOpt = true ∧ reqKA = true := by
  cases reqOpt <;> cases respOpt <;> cases reqKA <;> simp_all [addTCPKeepAlive]

/-- Then the timeout written is `uint16(idle ms / 100)`, and an option is allocated (code 11) iff the
response has none. -/
theorem keepalive_timeout :
    let tr := addTCPKeepAlive r true true true respKA ms
    tr.getLast? = some ("set keepAliveOpt.Timeout", [toString (goWrapU 65536 (Int.tdiv ms 100))]) ∧
      (("new dns.EDNS0_TCP_KEEPALIVE", ["Code=" ++ toString (11 : Int)]) ∈ tr ↔ respKA = false) := by
  cases respKA <;> simp [addTCPKeepAlive]

/-- The value is the one the model's `keepAliveLen` looks at, for every non-negative idle time. -/
theorem keepalive_value_tr (idleMs : Nat) :
    goWrapU 65536 (Int.tdiv (idleMs : Int) 100) = ((idleMs / 100 % 65536 : Nat) : Int) ∧
      Agd.Normalize.keepAliveLen idleMs =
        if goWrapU 65536 (Int.tdiv (idleMs : Int) 100) > 0 then 2 else 0 := by
  have h : goWrapU 65536 (Int.tdiv (idleMs : Int) 100) = ((idleMs / 100 % 65536 : Nat) : Int) := by
    unfold goWrapU
    rw [Int.tdiv_eq_ediv_of_nonneg (by omega)]; omega
  refine ⟨h, ?_⟩
  rw [h]; unfold Agd.Normalize.keepAliveLen
  split <;> split <;> omega

end keepalive

/-! ## `packWithPrefix` -/

section pack
variable (buf0 msg : List Int) (e1 e2 : Option String) (grow packed : List Int)

/-- A message longer than 65535 bytes is refused: the result is the `fmt.Errorf` error, and neither
the prefix nor anything else is produced. -/
theorem pack_guard (h : (msg.length : Int) > 65535) :
    let r := packWithPrefix buf0 (msg, none) e1 e2 grow packed
    r.1 = [] ∧ r.2.1 = e2 ∧ "PutUint16" ∉ names r.2.2 ∧ "slice" ∉ names r.2.2 := by
  simp [packWithPrefix, h, names]

/-- Otherwise the prefix written into the first two bytes is exactly the message length (the `uint16`
conversion never wraps), the buffer is re-sliced to length + 2 and the message copied behind the
prefix. -/
theorem pack_prefix_exact (h : (msg.length : Int) ≤ 65535) :
    let r := packWithPrefix buf0 (msg, none) e1 e2 grow packed
    r.1 = packed ∧ r.2.1 = none ∧
      ("PutUint16", ["packed[" ++ ":" ++ toString (2 : Int) ++ "]", toString (msg.length : Int)]) ∈ r.2.2 ∧
      ("slice", ["slices.Grow(buf, 2)[" ++ ":" ++ toString ((msg.length : Int) + 2) ++ "]"]) ∈ r.2.2 ∧
      ("copy", ["packed[" ++ toString (2 : Int) ++ ":" ++ "]", "_"]) ∈ r.2.2 := by
  have hw : goWrapU 65536 (msg.length : Int) = (msg.length : Int) :=
    goWrapU_of_range (by omega) (by omega)
  have hn : ¬ ((msg.length : Int) > 65535) := by omega
  simp [packWithPrefix, hn, hw]

/-- A pack error is passed on (wrapped) and nothing is produced. -/
theorem pack_error (e : String) (l : List Int) :
    let r := packWithPrefix buf0 (l, some e) e1 e2 grow packed
    r.1 = [] ∧ r.2.1 = e1 ∧ "PutUint16" ∉ names r.2.2 := by
  simp [packWithPrefix, names]

/-- The model's `emitted` flag of the guarded transports (TCP, DoT, DoQ) is "packWithPrefix returned no
error", given that `fmt.Errorf` returns a non-nil error. -/
theorem emitted_tr (wire : Nat) (e : String) (h : msg.length = wire) :
    (!decide (wire > Agd.Normalize.maxMsgSize)) =
      (packWithPrefix buf0 (msg, none) e1 (some e) grow packed).2.1.isNone := by
  subst h; unfold Agd.Normalize.maxMsgSize
  by_cases hl : (msg.length : Int) > 65535
  · have : msg.length > 65535 := by omega
    simp [packWithPrefix, hl, this]
  · have : ¬ msg.length > 65535 := by omega
    simp [packWithPrefix, hl, this]

end pack

/-! ## The DoQ and DoH write paths -/

/-- DoQ: whatever the handler did, the response is normalised as TCP with protocol DoQ (4) *before* it is
packed with the length-guarded `packWithPrefix`, and nothing is written to the stream when that
refuses the message (the connection is closed with a protocol error instead). -/
theorem doq_write_path (s : S_dnsserver_ServerQUIC) (m : AbsPtr) (la ra : AbsPtr)
    (rw : Option S_dnsserver_NonWriterResponseWriter) (written : Bool) (gen bufp : AbsPtr)
    (pk : List Int × Option String) (w : Int × Option String) (rmsg : AbsPtr) :
    let r := doq_serveQUICStream s (m, none) true la ra rw written gen bufp pk w rmsg
    ("normalizeTCP", [toString (4 : Int), "_", "_"]) ∈ before "packWithPrefix" r.2 ∧
      "packWithPrefix" ∈ names r.2 ∧ "Write" ∉ names (before "packWithPrefix" r.2) ∧
      (pk.2.isSome → "Write" ∉ names r.2 ∧ "closeQUICConn" ∈ names r.2 ∧ r.1 = pk.2) ∧
      (pk.2 = none → "Write" ∈ names r.2) ∧
      ("genErrorResponse" ∈ names r.2 ↔ written = false) := by
  cases written <;> cases h : pk.2 <;>
    simp only [doq_serveQUICStream, h, Option.isSome_none, Option.isSome_some, Bool.false_eq_true, ↓reduceIte,
      Bool.not_true, Bool.not_false] <;>
    generalize toString (4 : Int) = four <;> generalize toString (2 : Int) = two <;>
    simp [names, before]

/-- DoH: the response is normalised as TCP with protocol DoH (3) before anything else. -/
theorem doh_normalizes_first (h : S_dnsserver_httpHandler) (d : Bool × Bool × String)
    (e1 e2 : Option String) (path : String) (pk js : List Int × Option String) (ttl : Int) (w : Int × Option String) :
    (doh_writeResponse h d e1 path pk ttl w js e2).2.head? =
      some ("normalizeTCP", [toString (3 : Int), "_", "_"]) := by
  unfold doh_writeResponse
  simp only []
  repeat' split
  all_goals simp

/-- DoH has no length guard of its own: a wire-format answer that packs is written, whatever its size
(the known DoH finding: padding after truncation can exceed 65535). -/
theorem doh_no_size_guard (h : S_dnsserver_httpHandler) (x : Bool) (e1 e2 : Option String) (path : String)
    (body : List Int) (js : List Int × Option String) (ttl : Int) (w : Int × Option String) :
    let r := doh_writeResponse h (true, x, "application/dns-message") e1 path (body, none) ttl w js e2
    "Write" ∈ names r.2 ∧ r.1 = w.2 := by
  simp [doh_writeResponse, names]

/-- `genErrorResponse` makes a fresh (non-nil) message and sets the given rcode on it. -/
theorem genErrorResponse_tr (code : Int) :
    genErrorResponse code = (true, [("new dns.Msg", []), ("SetRcode", ["_", toString code])]) := by
  simp [genErrorResponse]

/-! ## Round 4: the server around the write paths, as translated -/

/-- The model's `Accept` as the library's `dns.MsgAcceptAction` constants. -/
def acceptCode : Agd.Normalize.Accept → Int
  | .accept => 0 | .reject => 1 | .ignore => 2 | .notImp => 3

/-- `ServerBase.acceptMsg` of the source is the model's `acceptMsg`, for every header. -/
theorem acceptMsg_tr (s : S_dnsserver_ServerBase) (resp : Bool) (opcode nq nans nns : Nat) :
    acceptMsg s resp opcode nq nans nns =
      acceptCode (Agd.Normalize.acceptMsg
        { response := resp, opcode := opcode, nq := nq, nans := nans, nns := nns }) := by
  unfold acceptMsg Agd.Normalize.acceptMsg
  cases resp
  · by_cases h0 : opcode = 0 <;> by_cases h4 : opcode = 4 <;> by_cases h1 : nq = 1 <;>
      by_cases ha : nans > 1 <;> by_cases hn : nns > 1 <;>
      simp [acceptCode, h0, h4, h1, ha, hn] <;> omega
  · simp [acceptCode]

example (s : S_dnsserver_ServerBase) : acceptMsg s false 0 1 0 0 = 0 ∧ acceptMsg s false 0 2 0 0 = 1 ∧
    acceptMsg s true 0 1 0 0 = 2 ∧ acceptMsg s false 5 1 0 0 = 3 ∧ acceptMsg s false 4 1 1 1 = 0 := by
  simp [acceptMsg]

/-- `serveDNSMsgInternal`, rejected queries: exactly one response is made — FORMERR (1) for a
malformed query, NOTIMP (4) for an unsupported opcode — and written through the transport's writer
(hence normalised like any response); the handler is not called.  An ignored message (QR bit set)
causes nothing at all. -/
theorem serve_rejects (s : S_dnsserver_ServerBase) (rw : Option S_dnsserver_RecorderResponseWriter)
    (w1 h w2 : Option String) (g2 g3 : AbsPtr) (nc : Bool) :
    serveDNSMsgInternal s rw 1 true w1 h g2 nc w2 g3 =
      [("acceptMsg", ["_"]), ("genErrorResponse", ["_", toString (1 : Int)]), ("WriteMsg", ["_", "_", "_"])] ∧
    serveDNSMsgInternal s rw 3 true w1 h g2 nc w2 true =
      [("acceptMsg", ["_"]), ("genErrorResponse", ["_", toString (4 : Int)]), ("WriteMsg", ["_", "_", "_"])] ∧
    serveDNSMsgInternal s rw 2 g3 w1 h g2 nc w2 g3 = [("acceptMsg", ["_"])] := by
  refine ⟨?_, ?_, ?_⟩ <;> cases w1 <;> simp [serveDNSMsgInternal]

/-- `serveDNSMsgInternal`, accepted queries: the handler is called once; if it returns no error the
server writes nothing itself; if it returns an error the server makes a SERVFAIL (2), adds the
extended error "network error" (23, empty text) iff the error is a non-critical network error, and
writes it through the same writer. -/
theorem serve_accepted (s : S_dnsserver_ServerBase) (rw : Option S_dnsserver_RecorderResponseWriter)
    (w1 w2 : Option String) (g1 g2 g3 : AbsPtr) (nc : Bool) (e : String) :
    serveDNSMsgInternal s rw 0 g1 w1 none g2 nc w2 g3 = [("acceptMsg", ["_"]), ("ServeDNS", ["_", "_", "_"])] ∧
    names (serveDNSMsgInternal s rw 0 g1 w1 (some e) g2 nc w2 g3) =
      ["acceptMsg", "ServeDNS", "genErrorResponse", "isNonCriticalNetError"] ++
        (if nc then ["addEDE"] else []) ++ ["WriteMsg"] ∧
    argsOf "genErrorResponse" (serveDNSMsgInternal s rw 0 g1 w1 (some e) g2 nc w2 g3) =
      [["_", toString (2 : Int)]] ∧
    (nc = true → argsOf "addEDE" (serveDNSMsgInternal s rw 0 g1 w1 (some e) g2 nc w2 g3) =
      [["_", "_", toString (23 : Int), ""]]) := by
  refine ⟨?_, ?_, ?_, ?_⟩
  · simp [serveDNSMsgInternal]
  · cases nc <;> cases w2 <;> simp [serveDNSMsgInternal, names]
  · cases nc <;> cases w2 <;> simp [serveDNSMsgInternal, argsOf]
  · intro h; subst h; cases w2 <;> simp [serveDNSMsgInternal, argsOf]

/-- `addEDE`: nothing for a query without OPT; otherwise an OPT record is made with `SetEdns0` only
when the response has none, and the extended-error option is appended to it. -/
theorem addEDE_tr (code : Int) (text : String) (respOpt made : AbsPtr) :
    addEDE code text false respOpt made = [] ∧
    names (addEDE code text true respOpt made) =
      (if respOpt then [] else ["SetEdns0"]) ++ ["set respOpt.Option"] := by
  cases respOpt <;> simp [addEDE, names]

/-- `NetworkFromAddr`: "udp" and "tcp" map to themselves, anything else panics. -/
theorem networkFromAddr_tr (n : String) :
    NetworkFromAddr n = if n = "udp" then some "udp" else if n = "tcp" then some "tcp" else none := by
  unfold NetworkFromAddr
  by_cases h1 : n = "udp" <;> by_cases h2 : n = "tcp" <;> simp [h1, h2]

/-- DNSCrypt: whether the handler wrote or not, the message handed to the library is normalised
exactly once, with the network of the local address and protocol DNSCrypt (9), and only then written;
a silent handler gets a SERVFAIL (2) which is normalised like any other response.  Since the round-5
`fix:` commit the cap is `h.srv.conf.MaxUDPRespSize` (read through a pointer: opaque here; the
argument text is the syntactic fact `dnscrypt_src`, the behaviour is the wiring campaign's), and the
UDP size of the *request* the library will truncate by is lowered (`SetUDPSize`, fact
`dnscrypt_clamp_src`) exactly when the query has an OPT record and the network is UDP — after
`normalize` (so the echo keeps the client's own size), before `WriteMsg`; round 6: it is lowered in the
copy `replaceOPT` puts into a cloned additional section of the request (`replaceOPT_tr` below), so a
response that shares the record or the section with the request keeps the client's size. -/
theorem dnscrypt_write_path (h : S_dnsserver_dnsCryptHandler) (rc : AbsPtr × AbsPtr) (ctx : AbsPtr)
    (nrw : Option S_dnsserver_NonWriterResponseWriter) (written : Bool) (m g : AbsPtr) (network : String)
    (reqOpt lowered : AbsPtr) (w : Option String) :
    let r := dnscrypt_ServeDNS h rc ctx nrw written m network reqOpt lowered w g
    argsOf "normalize" r.2 = [[network, toString (9 : Int), "_", "_", "_"]] ∧
      names (after "normalize" r.2) =
        (if reqOpt && decide (network = "udp") then ["IsEdns0", "replaceOPT", "SetUDPSize", "WriteMsg"]
         else ["IsEdns0", "WriteMsg"]) ∧
      "WriteMsg" ∉ names (before "normalize" r.2) ∧ "SetUDPSize" ∉ names (before "normalize" r.2) ∧
      r.1 = w ∧
      (argsOf "genErrorResponse" r.2 = if written then [] else [["_", toString (2 : Int)]]) := by
  cases written <;> cases hc : (reqOpt && decide (network = "udp")) <;>
    simp only [dnscrypt_ServeDNS, hc, Bool.false_eq_true, ↓reduceIte] <;>
    generalize toString (9 : Int) = nine <;>
    generalize toString (2 : Int) = two <;>
    simp [argsOf, names, after, before]

/-- With the cap left unset (`NewServerDNSCrypt` then takes 65535, fact `dnscrypt_cap_default_src`)
the limit DNSCrypt/UDP truncates to is max(512, advertised) for every 16-bit size; with a configured
cap it is `maxDNSSize_formula`'s max(512, min(advertised, configured)). -/
theorem dnscrypt_udp_limit (edns : Int) (h : edns ≤ 65535) :
    Agd.Gen.TrC08.maxDNSSize "udp" edns 65535 = max 512 edns := by
  unfold Agd.Gen.TrC08.maxDNSSize; simp; omega

/-- Plain UDP: `WriteMsg` normalises first, with network `udp`, protocol DNS (8) and the writer's
`maxRespSize` (the configured `MaxUDPRespSize`) as the cap; the response is packed only afterwards. -/
theorem udp_write_path (r : S_dnsserver_udpResponseWriter) (bufp : AbsPtr)
    (pk : List Int × Option String) (e : Option String) :
    (udp_WriteMsg r bufp pk e).2.head? =
      some ("normalize", ["udp", toString (8 : Int), "_", "_", toString r.maxRespSize]) ∧
    argsOf "normalize" (udp_WriteMsg r bufp pk e).2 =
      [["udp", toString (8 : Int), "_", "_", toString r.maxRespSize]] ∧
    "PackBuffer" ∈ names (after "normalize" (udp_WriteMsg r bufp pk e).2) ∧
    (pk.2.isSome → "withWriteDeadline" ∉ names (udp_WriteMsg r bufp pk e).2) := by
  cases h : pk.2 <;>
    simp only [udp_WriteMsg, h, Option.isSome_none, Option.isSome_some, Bool.false_eq_true, ↓reduceIte] <;>
    generalize toString (8 : Int) = eight <;> generalize toString r.maxRespSize = cap <;>
    generalize toString r.writeTimeout = wt <;>
    simp [argsOf, names, after]

/-- TCP / DoT: `WriteMsg` normalises as TCP, then adds the keep-alive option, then packs with the
length-guarded `packWithPrefix`; when that refuses the message nothing is written to the connection
(the error goes back to the handler). -/
theorem tcp_write_path (r : S_dnsserver_tcpResponseWriter) (si : Option S_dnsserver_ServerInfo)
    (bufp : AbsPtr) (pk : List Int × Option String) (e : Option String) :
    names ((tcp_WriteMsg r si bufp pk e).2.take 5) =
      ["MustServerInfoFromContext", "normalizeTCP", "addTCPKeepAlive", "Get", "packWithPrefix"] ∧
    (pk.2.isSome → "withWriteDeadline" ∉ names (tcp_WriteMsg r si bufp pk e).2 ∧
      (tcp_WriteMsg r si bufp pk e).1 = e) ∧
    (pk.2 = none → "withWriteDeadline" ∈ names (tcp_WriteMsg r si bufp pk e).2) := by
  cases h : pk.2 <;>
    simp only [tcp_WriteMsg, h, Option.isSome_none, Option.isSome_some, Bool.false_eq_true, ↓reduceIte] <;>
    generalize toString r.writeTimeout = wt <;>
    simp [names]

/-- DoQ: a query `validQUICMsg` rejects (one that carries edns-tcp-keepalive) closes the connection
with DOQ_PROTOCOL_ERROR before the handler runs; nothing is normalised, packed or written. -/
theorem doq_invalid_msg (s : S_dnsserver_ServerQUIC) (m : AbsPtr) (la ra : AbsPtr)
    (rw : Option S_dnsserver_NonWriterResponseWriter) (written : Bool) (gen bufp : AbsPtr)
    (pk : List Int × Option String) (w : Int × Option String) (rmsg : AbsPtr) :
    let r := doq_serveQUICStream s (m, none) false la ra rw written gen bufp pk w rmsg
    "serveDNSMsg" ∉ names r.2 ∧ "Write" ∉ names r.2 ∧ "packWithPrefix" ∉ names r.2 ∧
      "closeQUICConn" ∈ names r.2 ∧ r.1.isSome := by
  simp only [doq_serveQUICStream]
  generalize toString (2 : Int) = two
  simp [names]

end Agd.Tie.TrC08

#print axioms Agd.Tie.TrC08.translation_complete
#print axioms Agd.Tie.TrC08.maxDNSSize_tr
#print axioms Agd.Tie.TrC08.maxDNSSize_formula
#print axioms Agd.Tie.TrC08.padding_support_iff
#print axioms Agd.Tie.TrC08.hasPadding_tr
#print axioms Agd.Tie.TrC08.normalizeTCP_args
#print axioms Agd.Tie.TrC08.stream_limit
#print axioms Agd.Tie.TrC08.normalize_truncates_once
#print axioms Agd.Tie.TrC08.normalize_no_opt
#print axioms Agd.Tie.TrC08.normalize_opt_echo_own
#print axioms Agd.Tie.TrC08.normalize_opt_echo_synth
#print axioms Agd.Tie.TrC08.normalize_padding_iff
#print axioms Agd.Tie.TrC08.normalize_after_truncate
#print axioms Agd.Tie.TrC08.truncate_first
#print axioms Agd.Tie.TrC08.truncate_answers_iff
#print axioms Agd.Tie.TrC08.truncate_drops_options_iff
#print axioms Agd.Tie.TrC08.truncate_answers_tr
#print axioms Agd.Tie.TrC08.dropOpts_tr
#print axioms Agd.Tie.TrC08.pad_only_when_requested
#print axioms Agd.Tie.TrC08.pad_length
#print axioms Agd.Tie.TrC08.padLen_tr
#print axioms Agd.Tie.TrC08.keepalive_only_when_requested
#print axioms Agd.Tie.TrC08.keepalive_timeout
#print axioms Agd.Tie.TrC08.keepalive_value_tr
#print axioms Agd.Tie.TrC08.pack_guard
#print axioms Agd.Tie.TrC08.pack_prefix_exact
#print axioms Agd.Tie.TrC08.pack_error
#print axioms Agd.Tie.TrC08.emitted_tr
#print axioms Agd.Tie.TrC08.doq_write_path
#print axioms Agd.Tie.TrC08.doh_normalizes_first
#print axioms Agd.Tie.TrC08.doh_no_size_guard
#print axioms Agd.Tie.TrC08.genErrorResponse_tr
#print axioms Agd.Tie.TrC08.acceptMsg_tr
#print axioms Agd.Tie.TrC08.serve_rejects
#print axioms Agd.Tie.TrC08.serve_accepted
#print axioms Agd.Tie.TrC08.addEDE_tr
#print axioms Agd.Tie.TrC08.networkFromAddr_tr
#print axioms Agd.Tie.TrC08.dnscrypt_write_path
#print axioms Agd.Tie.TrC08.dnscrypt_udp_limit
#print axioms Agd.Tie.TrC08.udp_write_path
#print axioms Agd.Tie.TrC08.tcp_write_path
#print axioms Agd.Tie.TrC08.doq_invalid_msg
