import Agd.Gen.TrC07
/-!
# C07: recycled request contexts start from a clean state — on translated source

`Agd.Gen.TrC07.*` are regenerated on every run (`extract/tr.go`) from
`mainmw.Middleware.newFilteringContext` and `ratelimitmw.Middleware.newRequestInfo`: the two places
where a pooled per-request object is taken from its pool.  The pooled object is a parameter (whatever
the previous request left in it); fields of library types are trace entries.
-/
namespace Agd.Tie.TrC07
open Agd.Gen.TrC07 Agd.TrPrelude

theorem translation_complete : translationFailures = [] := by decide

def names (tr : List (String × List String)) : List String := tr.map (·.1)

/-- The filtering context: whatever the pooled object held, the WHOLE object is overwritten with the
zero value before anything else is written into it (so no message, verdict or timing of a previous
request survives), and the result depends only on the new request. -/
theorem filtering_context_reset (mw : S_mainmw_Middleware) (old₁ old₂ : S_mainmw_filteringContext) (qclass : Int) :
    newFilteringContext mw (some old₁) qclass = newFilteringContext mw (some old₂) qclass ∧
    (newFilteringContext mw (some old₁) qclass).map (fun r => (r.1, (names r.2).take 2)) =
      some (some ⟨0, decide (qclass = 3)⟩, ["Get", "set *fctx"]) := by
  by_cases h : qclass = 3 <;> simp [newFilteringContext, names, h]

/-- The request info: device result, ECS and location of the previous user are cleared, the message
constructor is reset to the server's before the device is looked up, and host / type / class come from
this request's question — whatever the pooled object held. -/
theorem request_info_reset (mw : S_ratelimitmw_Middleware) (old : S_agd_RequestInfo) (u2 u3 : Unit) (host name : String)
    (qt qc : Int) (rid : Unit × Bool) (u9 : Unit) (dev : AbsPtr) (cl : Option S_dnsmsg_Cloner)
    (nc : Option S_dnsmsg_Constructor × Option String) :
    (newRequestInfo mw (some old) u2 u3 host name qt qc rid u9 dev (none, false) cl nc).map
      (fun r => (r.1.map (fun ri => (ri.ECS, ri.Location, ri.Messages, ri.Host, ri.QType, ri.QClass)),
                 (names r.2).take 2, (r.2.filter (·.1 = "set ri.DeviceResult")).map (·.2))) =
      some (some (none, none, mw.messages, host, qt, qc), ["Get", "set ri.DeviceResult"], [["nil"], ["_"]]) := by
  simp [newRequestInfo, names]

/-- With a recognised device the constructor of ITS profile is installed (or, if it cannot be built,
the server's is kept) — never one left over from the pooled object. -/
theorem request_info_messages (mw : S_ratelimitmw_Middleware) (old : S_agd_RequestInfo) (u2 u3 : Unit) (host name : String)
    (qt qc : Int) (rid : Unit × Bool) (u9 : Unit) (dev : AbsPtr) (r : S_agd_DeviceResultOK) (cl : Option S_dnsmsg_Cloner)
    (c : Option S_dnsmsg_Constructor) (e : Option String) :
    ∀ ri tr, newRequestInfo mw (some old) u2 u3 host name qt qc rid u9 dev (some r, true) cl (c, e) = some (some ri, tr) →
      ri.Messages = (if e.isSome then mw.messages else c) := by
  intro ri tr h
  cases e <;> simp [newRequestInfo] at h <;> obtain ⟨h1, _⟩ := h <;> subst h1 <;> rfl

end Agd.Tie.TrC07

#print axioms Agd.Tie.TrC07.translation_complete
#print axioms Agd.Tie.TrC07.filtering_context_reset
#print axioms Agd.Tie.TrC07.request_info_reset
#print axioms Agd.Tie.TrC07.request_info_messages
