import Agd.Gen.TrC07
/-!
# C07: recycled request contexts start from a clean state — on translated source

`Agd.Gen.TrC07.*` are regenerated on every run (`extract/tr.go`) from
`mainmw.Middleware.newFilteringContext` and `ratelimitmw.Middleware.newRequestInfo`: the two places
where a pooled per-request object is taken from its pool.  The pooled object is a parameter (whatever
the previous request left in it); fields of library types are trace entries.
-/
namespace Agd.Tie.TrC07
open Agd.Gen.TrC07 Agd.TrPrelude

theorem translation_complete : translationFailures = [] := by decide

def names (tr : List (String × List String)) : List String := tr.map (·.1)

/-- The filtering context: whatever the pooled object held, the WHOLE object is overwritten with the
zero value before anything else is written into it (so no message, verdict or timing of a previous
request survives), and the result depends only on the new request. -/
theorem filtering_context_reset (mw : S_mainmw_Middleware) (old₁ old₂ : S_mainmw_filteringContext) (qclass : Int) :
    newFilteringContext mw (some old₁) qclass = newFilteringContext mw (some old₂) qclass ∧
    (newFilteringContext mw (some old₁) qclass).map (fun r => (r.1, (names r.2).take 2)) =
      some (some ⟨0, decide (qclass = 3)⟩, ["Get", "set *fctx"]) := by
  by_cases h : qclass = 3 <;> simp [newFilteringContext, names, h]

/-- The request info: device result, ECS and location of the previous user are cleared, the message
constructor is reset to the server's before the device is looked up, and host / type / class come from
this request's question — whatever the pooled object held. -/
theorem request_info_reset (mw : S_ratelimitmw_Middleware) (old : S_agd_RequestInfo) (u2 u3 : Unit) (host name : String)
    (qt qc : Int) (rid : Unit × Bool) (u9 : Unit) (dev : AbsPtr) (cl : Option S_dnsmsg_Cloner)
    (nc : Option S_dnsmsg_Constructor × Option String) :
    (newRequestInfo mw (some old) u2 u3 host name qt qc rid u9 dev (none, false) cl nc).map
      (fun r => (r.1.map (fun ri => (ri.ECS, ri.Location, ri.Messages, ri.Host, ri.QType, ri.QClass)),
                 (names r.2).take 2, (r.2.filter (·.1 = "set ri.DeviceResult")).map (·.2))) =
      some (some (none, none, mw.messages, host, qt, qc), ["Get", "set ri.DeviceResult"], [["nil"], ["_"]]) := by
  simp [newRequestInfo, names]

/-- With a recognised device the constructor of ITS profile is installed (or, if it cannot be built,
the server's is kept) — never one left over from the pooled object. -/
theorem request_info_messages (mw : S_ratelimitmw_Middleware) (old : S_agd_RequestInfo) (u2 u3 : Unit) (host name : String)
    (qt qc : Int) (rid : Unit × Bool) (u9 : Unit) (dev : AbsPtr) (r : S_agd_DeviceResultOK) (cl : Option S_dnsmsg_Cloner)
    (c : Option S_dnsmsg_Constructor) (e : Option String) :
    ∀ ri tr, newRequestInfo mw (some old) u2 u3 host name qt qc rid u9 dev (some r, true) cl (c, e) = some (some ri, tr) →
      ri.Messages = (if e.isSome then mw.messages else c) := by
  intro ri tr h
  cases e <;> simp [newRequestInfo] at h <;> obtain ⟨h1, _⟩ := h <;> subst h1 <;> rfl

/-- On EVERY branch — no device, a device whose profile's constructor is built, a device whose profile's
constructor cannot be built (`NewConstructor` returns an error, which is only collected) — the request info
does not depend on what the previous user left in the pooled object: two pooled objects that agree on the
pool-constant fields (filtering group, server group, server name, protocol: set by `New` of the pool) give the
same result and the same trace.  (The seeded change `messages-constructor-kept-on-ctor-error` keeps
`old.Messages` on the third branch.) -/
theorem request_info_pool_independent (mw : S_ratelimitmw_Middleware) (old₁ old₂ : S_agd_RequestInfo) (u2 u3 : Unit)
    (host name : String) (qt qc : Int) (rid : Unit × Bool) (u9 : Unit) (dev : AbsPtr)
    (dr : Option S_agd_DeviceResultOK × Bool) (cl : Option S_dnsmsg_Cloner)
    (nc : Option S_dnsmsg_Constructor × Option String)
    (hc : old₁.FilteringGroup = old₂.FilteringGroup ∧ old₁.ServerGroup = old₂.ServerGroup ∧ old₁.Server = old₂.Server ∧
      old₁.Proto = old₂.Proto) :
    newRequestInfo mw (some old₁) u2 u3 host name qt qc rid u9 dev dr cl nc =
      newRequestInfo mw (some old₂) u2 u3 host name qt qc rid u9 dev dr cl nc := by
  obtain ⟨h1, h2, h3, h4⟩ := hc
  obtain ⟨r, ok⟩ := dr
  obtain ⟨c, e⟩ := nc
  cases ok <;> cases r <;> cases e <;> simp [newRequestInfo, h1, h2, h3, h4]

/-- Non-vacuity: a pooled object that carries the constructor, location and host of another request, and a
profile whose constructor cannot be built: the result has the server's constructor. -/
example (mw : S_ratelimitmw_Middleware) (old : S_agd_RequestInfo) (r : S_agd_DeviceResultOK) (p : S_agd_Profile)
    (hp : r.Profile = some p) (stale : Option S_dnsmsg_Constructor) :
    (newRequestInfo mw (some { old with Messages := stale, Host := "other.example" }) () () "own.example" "own.example." 1 1
      ((), true) () default (some r, true) none (none, some "negative ttl")).map (fun x => x.1.map (fun ri => (ri.Messages, ri.Host))) =
      some (some (mw.messages, "own.example")) := by
  simp [newRequestInfo, hp]

/-! ## Round 3: the pooled `filter.Request` / `filter.Response`, and what the ECS cache keeps -/

/-- `filter.Request` out of its pool: whatever object `Get` returned, ALL seven fields are written, once
each, from this request's message and request info; the client name is the name of this request's
device, or empty when there is none (not what the previous user left). -/
theorem flt_request_filled (mw : S_mainmw_Middleware) (ri : Option S_agd_RequestInfo) (old : AbsPtr)
    (p : Option S_agd_Profile) (d : Option S_agd_Device) :
    reqInfoToFltReq mw ri old (p, d) =
      some (old, [("Get", []), ("set fltReq.DNS", ["req"]), ("set fltReq.Messages", ["ri.Messages"]),
        ("set fltReq.RemoteIP", ["ri.RemoteIP"]), ("DeviceData", []),
        ("set fltReq.ClientName", [(d.map (·.Name)).getD ""]), ("set fltReq.Host", ["ri.Host"]),
        ("set fltReq.QType", ["ri.QType"]), ("set fltReq.QClass", ["ri.QClass"])]) := by
  cases d <;> simp [reqInfoToFltReq]

/-- `filter.Response` out of its pool: all three fields are written, once each. -/
theorem flt_response_filled (mw : S_mainmw_Middleware) (ri : Option S_agd_RequestInfo) (old : AbsPtr)
    (p : Option S_agd_Profile) (d : Option S_agd_Device) :
    reqInfoToFltResp mw ri old (p, d) =
      some (old, [("Get", []), ("set fltResp.DNS", ["resp"]), ("set fltResp.RemoteIP", ["ri.RemoteIP"]),
        ("DeviceData", []), ("set fltResp.ClientName", [(d.map (·.Name)).getD ""])]) := by
  cases d <;> simp [reqInfoToFltResp]

/-- Going back to the pool, the message reference is dropped first, then the object is put, once. -/
theorem flt_put_drops_message (mw : S_mainmw_Middleware) :
    putFltReq mw = [("set req.DNS", ["nil"]), ("Put", ["_"])] ∧
    putFltResp mw = [("set resp.DNS", ["nil"]), ("Put", ["_"])] := by
  simp [putFltReq, putFltResp]

/-- `ecscache.Middleware.set`: in every run, either nothing is stored, or the last three calls are the
key computation, `Clone`, and the store — what goes into the cache is made by `Clone` right before it is
stored (the response itself goes on to the client and is released after it was written). -/
theorem ecs_set_stores_clone (mw : S_ecscache_Middleware) (cr : Option S_ecscache_cacheRequest) (dep : Bool)
    (ttl : Int) (cacheable : Bool) (c1 c2 : AbsPtr) (rcode key : Int) (cl : AbsPtr) :
    let tr := names (ecsSet mw cr dep ttl cacheable c1 c2 rcode key cl)
    tr = ["FindLowestTTL", "isCacheable"] ∨
      (tr.drop (tr.length - 3) = ["toCacheKey", "Clone", "SetWithExpire"] ∧ tr.count "SetWithExpire" = 1) := by
  simp only [ecsSet, names]
  by_cases h1 : (decide (ttl = (0 : Int)) || !cacheable) = true
  · simp [h1]
  · by_cases h2 : dep = true <;> by_cases h3 : (mw.overrideTTL && !decide (rcode = (2 : Int))) = true <;>
      simp [h1, h2, h3]

/-! ## `initial.Middleware.newRespDDR` (translator round 3): the shared DDR templates are never written

The two loops over `ddr.DeviceRecordTemplates` / `ddr.PublicRecordTemplates` are translated as effect
loops (`"elem_loop"`): the entries between `("for", …)` and `("end", [])` are what happens for every
template record `rr`. -/

/-- Scans a trace: inside a `for` block nothing may be written through `rr` and `rr` may not be appended
to the response before `rr` has been re-bound to a `dns.Copy` of itself; nothing is ever written through
`ddr` (the server group's shared templates). `copied`: has `rr` been re-bound in the current block? -/
def copiesOnly : List (String × List String) → Bool → Bool
  | [], _ => true
  | e :: r, copied =>
    if e.1 == "for" then copiesOnly r false
    else if e.1 == "rebind rr" then (e.2.any fun v => goHasPrefix v "dns.Copy(rr)") && copiesOnly r true
    else if goHasPrefix e.1 "set rr." || e.1 == "set resp.Answer" then copied && copiesOnly r copied
    else if goHasPrefix e.1 "set ddr" || goHasPrefix e.1 "set ri." then false
    else copiesOnly r copied

def cnt (n : String) (tr : List (String × List String)) : Nat := (names tr).count n

/-- For every request, server group and device: `newRespDDR` panics only without a server group; every
record it appends to the answer is a `dns.Copy` of a template, the owner name (and, for a device, the
target) is set on the copy only — after the re-binding — and nothing is written through the templates;
exactly one of the two template lists is used, the device templates iff the request has a device; the
target is personalised only then. -/
theorem newRespDDR_copies_templates (mw : S_initial_Middleware) (ri : Option S_agd_RequestInfo) (nr : AbsPtr) (name : String)
    (dd : Option S_agd_Profile × Option S_agd_Device) :
    (newRespDDR mw ri nr name dd = none ↔ (ri.bind (·.ServerGroup)) = none) ∧
    ∀ resp tr, newRespDDR mw ri nr name dd = some (resp, tr) →
      resp = nr ∧ copiesOnly tr false = true ∧ cnt "for" tr = 1 ∧ cnt "Copy" tr = 1 ∧ cnt "set resp.Answer" tr = 1 ∧
      ("set rr.Hdr.Name", [name]) ∈ tr ∧
      (dd.2 ≠ none → ("for", ["_, rr, range ddr.DeviceRecordTemplates"]) ∈ tr ∧ cnt "set rr.Target" tr = 1) ∧
      (dd.2 = none → ("for", ["_, rr, range ddr.PublicRecordTemplates"]) ∈ tr ∧ cnt "set rr.Target" tr = 0) := by
  obtain ⟨pr, dev⟩ := dd
  cases ri with
  | none => simp [newRespDDR]
  | some r =>
    cases hsg : r.ServerGroup with
    | none => simp [newRespDDR, hsg]
    | some sg =>
      cases dev <;>
        (refine ⟨by simp [newRespDDR, hsg], fun resp tr h => ?_⟩
         simp [newRespDDR, hsg] at h
         obtain ⟨rfl, rfl⟩ := h
         refine ⟨rfl, by simp [copiesOnly, goHasPrefix], ?_⟩
         simp [cnt, names])

end Agd.Tie.TrC07

#print axioms Agd.Tie.TrC07.translation_complete
#print axioms Agd.Tie.TrC07.filtering_context_reset
#print axioms Agd.Tie.TrC07.request_info_reset
#print axioms Agd.Tie.TrC07.request_info_messages
#print axioms Agd.Tie.TrC07.request_info_pool_independent
#print axioms Agd.Tie.TrC07.flt_request_filled
#print axioms Agd.Tie.TrC07.flt_response_filled
#print axioms Agd.Tie.TrC07.flt_put_drops_message
#print axioms Agd.Tie.TrC07.ecs_set_stores_clone
