import Agd.Gen.TrC15
import Agd.Model.Record
/-!
# C15: the recording decision and the result-code tables, as translated from the source

`Agd.Gen.TrC15.*` are regenerated on every run (`extract/tr.go`, list `extract/translate/C15.json`) from
`internal/dnssvc/internal/mainmw/{record,filter}.go` and `internal/querylog/{entry,fs}.go`.

* `netip.Addr` and `time.Time` values are *symbolic* (`String`: an injective rendering, `""` = zero value);
  a `filter.Result` is `Option String` (`none` = nil, `some t` = dynamic type `t`).
* Library calls (`filteringData`, `DeviceData`, `responseData`, `responseCountry`, GeoIP, the rule-statistics,
  billing and query-log interfaces) are opaque: their results are parameters, and `recordQueryInfo` returns the
  *trace* of calls made, in order, with their arguments — the `querylog.Entry` handed to `Write` included.

The theorems are stated on the translated code and, where `Agd.Record` has a counterpart, as equalities with it.
-/
namespace Agd.Tie.TrC15
open Agd.Gen.TrC15 Agd.TrPrelude

theorem translation_complete : translationFailures = [] := by decide

/-- Names of the calls in a trace. -/
def names (tr : List (String × List String)) : List String := tr.map (·.1)

/-! ## `FileSystem.convertElapsed` -/

/-- The translated clamp is the hand model's `convertElapsed`, for every `Elapsed.Milliseconds()`. -/
theorem convertElapsed_tr (l : S_querylog_FileSystem) (el ms : Int) :
    convertElapsed l el ms = (Agd.Record.convertElapsed ms : Int) := by
  unfold convertElapsed Agd.Record.convertElapsed
  simp only [decide_eq_true_eq]
  repeat' split
  all_goals first
    | omega
    | (rw [goWrapU_of_range (by omega) (by omega)]; omega)

example : convertElapsed ⟨"f"⟩ 0 5000000000 = 4294967295 ∧ convertElapsed ⟨"f"⟩ 0 (-3) = 0 ∧ convertElapsed ⟨"f"⟩ 0 17 = 17 := by
  decide

/-! ## `querylog.toResultCode`, `querylog.resultData` -/

/-- The dynamic type of a `filter.Result` of the given kind, as the translator prints it. -/
def dyn : Agd.Record.ResKind → Option String
  | .none => none
  | .allowed => some "*filter.ResultAllowed"
  | .blocked => some "*filter.ResultBlocked"
  | .modResp => some "*filter.ResultModifiedResponse"
  | .modReq => some "*filter.ResultModifiedRequest"

/-- The translated type switch is the model's table of documented codes, for every kind and both sides. -/
theorem toResultCode_tr (k : Agd.Record.ResKind) (resp : Bool) :
    toResultCode (dyn k) resp = some (Agd.Record.toResultCode k resp : Int) := by
  cases k <;> cases resp <;> decide

/-- `toResultCode` panics exactly on a dynamic type outside the sum type. -/
theorem toResultCode_total_iff (r : Option String) (resp : Bool) :
    toResultCode r resp ≠ none ↔ ∃ k, r = dyn k := by
  constructor
  · intro h
    by_cases h0 : r = none
    · exact ⟨.none, h0⟩
    by_cases h1 : r = some "*filter.ResultAllowed"
    · exact ⟨.allowed, h1⟩
    by_cases h2 : r = some "*filter.ResultBlocked"
    · exact ⟨.blocked, h2⟩
    by_cases h3 : r = some "*filter.ResultModifiedResponse"
    · exact ⟨.modResp, h3⟩
    by_cases h4 : r = some "*filter.ResultModifiedRequest"
    · exact ⟨.modReq, h4⟩
    exfalso; apply h
    cases r with
    | none => exact absurd rfl h0
    | some s => simp_all [toResultCode]
  · rintro ⟨k, rfl⟩; rw [toResultCode_tr]; simp

/-- `resultData`: the code is the model's; list and rule are the *request* result's `MatchedRule()` (`mreq`)
whenever there is a request result, else the response result's (`mresp`), else empty. -/
theorem resultData_tr (rq rs : Agd.Record.ResKind) (mresp mreq : String × String) :
    resultData (dyn rq) (dyn rs) mresp mreq =
      some ((((Agd.Record.resultData ⟨rq, [], []⟩ ⟨rs, [], []⟩).1 : Nat) : Int),
            if rq = .none then (if rs = .none then ("", "") else mresp) else mreq) := by
  cases rq <;> cases rs <;> simp [resultData, dyn, toResultCode, Agd.Record.resultData, Agd.Record.toResultCode]

/-! ## `mainmw.resultData`, `mainmw.filteringData` -/

/-- No result: nothing matched; allowed: not blocked; blocked or modified: "blocked". -/
theorem mw_resultData_tr (k : Agd.Record.ResKind) (arg : String) (m : String × String) :
    mw_resultData (dyn k) arg m =
      some (if k = .none then ("", "", false) else (m.1, m.2, decide (k ≠ .allowed))) := by
  cases k <;> simp [mw_resultData, dyn]

/-- An unknown dynamic type is a panic, nothing else is. -/
theorem mw_resultData_total_iff (r : Option String) (arg : String) (m : String × String) :
    mw_resultData r arg m ≠ none ↔ ∃ k, r = dyn k := by
  constructor
  · intro h
    by_cases h0 : r = none
    · exact ⟨.none, h0⟩
    by_cases h1 : r = some "*filter.ResultAllowed"
    · exact ⟨.allowed, h1⟩
    by_cases h2 : r = some "*filter.ResultBlocked"
    · exact ⟨.blocked, h2⟩
    by_cases h3 : r = some "*filter.ResultModifiedResponse"
    · exact ⟨.modResp, h3⟩
    by_cases h4 : r = some "*filter.ResultModifiedRequest"
    · exact ⟨.modReq, h4⟩
    exfalso; apply h
    cases r with
    | none => exact absurd rfl h0
    | some s => simp_all [mw_resultData]
  · rintro ⟨k, rfl⟩; rw [mw_resultData_tr]; simp

/-- `filteringData` asks about the request result when there is one, otherwise about the response result, and
returns that answer unchanged. -/
theorem filteringData_picks (fctx : S_mainmw_filteringContext) (a b : String × String × Bool) :
    filteringData fctx a b =
      if fctx.requestResult.isSome then (a.1, a.2.1, a.2.2, [("resultData", [reprStr fctx.requestResult, "reqRes"])])
      else (b.1, b.2.1, b.2.2, [("resultData", [reprStr fctx.responseResult, "respRes"])]) := by
  unfold filteringData; split <;> simp_all

/-- Composed with `mainmw.resultData`, the "blocked" flag is the hand model's `filteringData`. -/
theorem filteringData_blocked_tr (fctx : S_mainmw_filteringContext) (rq rs : Agd.Record.ResKind)
    (hq : fctx.requestResult = dyn rq) (hs : fctx.responseResult = dyn rs)
    (m1 m2 : String × String) (a b : String × String × Bool) (l r l' r' : Agd.Record.Str)
    (ha : mw_resultData (dyn rq) "reqRes" m1 = some a) (hb : mw_resultData (dyn rs) "respRes" m2 = some b) :
    (filteringData fctx a b).2.2.1 = (Agd.Record.filteringData ⟨rq, l, r⟩ ⟨rs, l', r'⟩).2.2 := by
  rw [mw_resultData_tr] at ha hb
  cases ha; cases hb
  rw [filteringData_picks, hq]
  cases rq <;> cases rs <;> simp [dyn, Agd.Record.filteringData]

/-! ## `Middleware.responseData`, `Middleware.responseCountry` -/

/-- No response: the unassigned RCODE 0xff, no address, no AD — and the answer section is not inspected. -/
theorem responseData_nil (mw : S_mainmw_Middleware) (ad : Bool) (rc : Int) (ipa : String × Option String) :
    responseData mw false ad rc ipa = (255, "", false, []) := by
  simp [responseData]

/-- Otherwise: the response's own RCODE (as `uint16`), its AD flag, and the first answer address. -/
theorem responseData_some (mw : S_mainmw_Middleware) (ad : Bool) (rc : Int) (ipa : String × Option String)
    (h0 : 0 ≤ rc) (h1 : rc < 65536) :
    responseData mw true ad rc ipa = (rc, ipa.1, ad, [("ipFromAnswer", ["_"])]) := by
  have : goWrapU 65536 rc = rc := goWrapU_of_range h0 h1
  unfold responseData; simp [this]

example : (responseData ⟨none, none⟩ true true 3 ("192.0.2.1", none)).1 = 3 := by decide

/-- For every non-negative `Msg.Rcode` — extended codes and values no message can carry included — the logged code
is the hand model's `rcode16`: the `uint16` conversion, and no masking to the four header bits. -/
theorem responseData_rcode_tr (mw : S_mainmw_Middleware) (ad : Bool) (rc : Nat) (ipa : String × Option String) :
    (responseData mw true ad (rc : Int) ipa).1 = (Agd.Record.rcode16 rc : Nat) := by
  unfold responseData goWrapU Agd.Record.rcode16
  simp

example : (responseData ⟨none, none⟩ true false 23 ("", none)).1 = 23 ∧ (responseData ⟨none, none⟩ true false 4095 ("", none)).1 = 4095 ∧
    (responseData ⟨none, none⟩ true false 65539 ("", none)).1 = 3 := by decide

/-! ## `ipFromHTTPSRRKV` -/

/-- One HTTPS parameter: never a panic; a family is reported exactly for an `ipv4hint` / `ipv6hint` with at least
one address, and then the address is the first hint; `e2` is the parameter's `Hint` list. -/
theorem ipFromHTTPSRRKV_spec (is4 is6 : Bool) (hints : List (List Int)) :
    ipFromHTTPSRRKV is4 hints is6 =
      some (match hints with
            | [] => (0, [])
            | h :: _ => if is4 then (1, h) else if is6 then (2, h) else (0, [])) := by
  cases is4 <;> cases is6 <;> cases hints <;> simp [ipFromHTTPSRRKV, goIndex?]

/-- Against the hand model: the parameter decides the scan of `ipFromKVs` (a family is reported) exactly when the
model's `KV` is a hint with a first address. -/
theorem ipFromHTTPSRRKV_tr (kv : Agd.Record.KV) (hints : List (List Int))
    (hlen : hints.length = match kv with | .hint4 hs => hs.length | .hint6 hs => hs.length | .other => 0) :
    (∃ ip, ipFromHTTPSRRKV (kv matches .hint4 _) hints (kv matches .hint6 _) = some (0, ip)) ↔
      ∀ r, Agd.Record.ipFromKVs (kv :: r) = Agd.Record.ipFromKVs r := by
  rw [ipFromHTTPSRRKV_spec]
  cases kv with
  | other =>
    simp at hlen
    subst hlen
    simp [Agd.Record.ipFromKVs]
  | hint4 hs =>
    cases hs with
    | nil => simp at hlen; subst hlen; simp [Agd.Record.ipFromKVs]
    | cons a t =>
      cases hints with
      | nil => simp at hlen
      | cons h ht =>
        simp
        cases a
        case addr => exact ⟨[], by simp [Agd.Record.ipFromKVs, Agd.Record.ipOfVal]⟩
        all_goals exact ⟨[.hint4 [.addr]], by simp [Agd.Record.ipFromKVs, Agd.Record.ipOfVal]⟩
  | hint6 hs =>
    cases hs with
    | nil => simp at hlen; subst hlen; simp [Agd.Record.ipFromKVs]
    | cons a t =>
      cases hints with
      | nil => simp at hlen
      | cons h ht =>
        simp
        cases a
        case addr => exact ⟨[], by simp [Agd.Record.ipFromKVs, Agd.Record.ipOfVal]⟩
        all_goals exact ⟨[.hint4 [.addr]], by simp [Agd.Record.ipFromKVs, Agd.Record.ipOfVal]⟩

/-- Not NOERROR, or no / an unspecified address: "not applicable" (`QN`), and GeoIP is not consulted. -/
theorem responseCountry_na (mw : S_mainmw_Middleware) (fctx : S_mainmw_filteringContext) (host ip : String) (rcode : Int)
    (unspec : Bool) (modReq : AbsPtr) (norm qname geo : String) (h : rcode ≠ 0 ∨ ip = "" ∨ unspec = true) :
    responseCountry mw fctx host ip rcode unspec modReq norm qname geo = ("QN", []) := by
  unfold responseCountry
  rcases h with h | h | h <;> simp [h]

/-- Otherwise the country is GeoIP's answer for the response address and the host — the CNAME-rewritten
name when the request was modified. -/
theorem responseCountry_geo (mw : S_mainmw_Middleware) (fctx : S_mainmw_filteringContext) (host ip : String)
    (modReq : AbsPtr) (norm qname geo : String) (hip : ip ≠ "") :
    let r := responseCountry mw fctx host ip 0 false modReq norm qname geo
    r.1 = geo ∧ r.2.getLast? = some ("country", ["_", if modReq then norm else host, ip]) := by
  unfold responseCountry
  cases modReq <;> simp [hip]

example : "QN".toList.map Char.toNat = Agd.Record.ctryNA := by decide

/-! ## `Middleware.recordQueryInfo` -/

def ctryOf (ri : S_agd_RequestInfo) : String := match ri.Location with | none => "" | some g => g.Country
def asnOf (ri : S_agd_RequestInfo) : Int := match ri.Location with | none => 0 | some g => g.ASN

/-- The entry handed to `queryLog.Write`. `rd` is `responseData(filteredResponse)`, `rc` the result of
`responseCountry`, `name` is `originalRequest.Question[0].Name`, `since` is `time.Since(start)`. -/
def entryOf (fctx : S_mainmw_filteringContext) (ri : S_agd_RequestInfo) (p : S_agd_Profile) (d : S_agd_Device)
    (start : String) (rd : Int × String × Bool) (rc name : String) (since : Int) : S_querylog_Entry :=
  { RemoteIP := if p.IPLogEnabled then ri.RemoteIP else "",
    RequestResult := fctx.requestResult, ResponseResult := fctx.responseResult, Time := start,
    ProfileID := p.ID, DeviceID := d.ID, ClientCountry := ctryOf ri, ResponseCountry := rc, DomainFQDN := name,
    Elapsed := since, ClientASN := asnOf ri, RequestType := ri.QType, ResponseCode := rd.1, Protocol := ri.Proto,
    DNSSEC := rd.2.2 }

/-- What happens before the profile is looked at: rule statistics for the matched rule. -/
def pre (fctx : S_mainmw_filteringContext) (fd : String × String × Bool) : List (String × List String) :=
  [("filteringData", [reprStr fctx]), ("Collect", ["_", fd.1, fd.2.1]), ("DeviceData", [])]

def billCall (ri : S_agd_RequestInfo) (d : S_agd_Device) (start : String) : String × List String :=
  ("Record", ["_", d.ID, ctryOf ri, toString (asnOf ri), start, toString ri.Proto])

/-- The complete effect of `recordQueryInfo` for an attributed request. -/
def attributed (fctx : S_mainmw_filteringContext) (ri : S_agd_RequestInfo) (fd : String × String × Bool)
    (p : S_agd_Profile) (d : S_agd_Device) (start : String) (rd1 rd2 : Int × String × Bool)
    (rc name : String) (since : Int) : List (String × List String) :=
  pre fctx fd ++ [("MustRequestInfoFromContext", ["_"]), billCall ri d start] ++
    (if p.QueryLogEnabled then
      [("responseData", ["_", "field:filteredResponse"])] ++
      (if fd.2.2 then [("responseData", ["_", "field:originalResponse"])] else []) ++
      [("responseCountry", ["_", reprStr fctx, ri.Host, if fd.2.2 then rd2.2.1 else rd1.2.1, toString rd1.1]),
       ("Write", ["_", reprStr (some (entryOf fctx ri p d start rd1 rc name since))])]
     else [])

/-- **Anonymous.** Without a profile only the rule statistics are collected: no billing record, no log entry
— whatever the other calls would have returned. -/
theorem anonymous_only_rulestat (mw : S_mainmw_Middleware) (fctx : S_mainmw_filteringContext) (ri : S_agd_RequestInfo)
    (fd : String × String × Bool) (dev : Option S_agd_Device) (rinfo : Option S_dnsserver_RequestInfo)
    (rd1 rd2 : Int × String × Bool) (rc name : String) (since : Int) (werr : Option String) :
    recordQueryInfo mw fctx ri fd (none, dev) rinfo rd1 rd2 () rc name since werr = some (pre fctx fd) := by
  simp [recordQueryInfo, pre]

/-- **Attributed.** With a profile (and its device, and the server's request info in the context) the effects
are exactly `attributed`: billing always; the log entry iff `QueryLogEnabled`; a failing `Write` changes nothing. -/
theorem attributed_spec (mw : S_mainmw_Middleware) (fctx : S_mainmw_filteringContext) (ri : S_agd_RequestInfo)
    (fd : String × String × Bool) (p : S_agd_Profile) (d : S_agd_Device) (r : S_dnsserver_RequestInfo)
    (rd1 rd2 : Int × String × Bool) (rc name : String) (since : Int) (werr : Option String) :
    recordQueryInfo mw fctx ri fd (some p, some d) (some r) rd1 rd2 () rc name since werr =
      some (attributed fctx ri fd p d r.StartTime rd1 rd2 rc name since) := by
  obtain ⟨id, text, blocked⟩ := fd
  unfold recordQueryInfo attributed pre billCall entryOf ctryOf asnOf
  cases hl : ri.Location <;> cases hq : p.QueryLogEnabled <;> cases blocked <;> cases hi : p.IPLogEnabled <;>
    cases werr <;> simp [hq, hi]

/-- `recordQueryInfo` panics exactly when a profile comes without its device or the context has no request info. -/
theorem never_panics_iff (mw : S_mainmw_Middleware) (fctx : S_mainmw_filteringContext) (ri : S_agd_RequestInfo)
    (fd : String × String × Bool) (prof : Option S_agd_Profile) (dev : Option S_agd_Device)
    (rinfo : Option S_dnsserver_RequestInfo) (rd1 rd2 : Int × String × Bool) (rc name : String) (since : Int)
    (werr : Option String) :
    recordQueryInfo mw fctx ri fd (prof, dev) rinfo rd1 rd2 () rc name since werr ≠ none ↔
      (prof = none ∨ (dev ≠ none ∧ rinfo ≠ none)) := by
  cases prof with
  | none => simp [anonymous_only_rulestat]
  | some p =>
    cases dev with
    | none => simp [recordQueryInfo]
    | some d =>
      cases rinfo with
      | none => cases hl : ri.Location <;> simp [recordQueryInfo, hl]
      | some r => simp [attributed_spec]

/-! ### The clauses of the property, read off the effects -/

/-- No profile: neither billing nor the query log is called. -/
theorem anonymous_never_billed_or_logged (fctx : S_mainmw_filteringContext) (fd : String × String × Bool) :
    "Record" ∉ names (pre fctx fd) ∧ "Write" ∉ names (pre fctx fd) := by
  simp [pre, names]

/-- Billing is called exactly once for an attributed request, with this request's device, location, start time
and protocol, and before the query log. -/
theorem billed_once_before_log (fctx : S_mainmw_filteringContext) (ri : S_agd_RequestInfo) (fd : String × String × Bool)
    (p : S_agd_Profile) (d : S_agd_Device) (start : String) (rd1 rd2 : Int × String × Bool) (rc name : String) (since : Int) :
    ∃ rest, attributed fctx ri fd p d start rd1 rd2 rc name since =
        pre fctx fd ++ [("MustRequestInfoFromContext", ["_"]), billCall ri d start] ++ rest ∧
      "Record" ∉ names (pre fctx fd) ∧ "Record" ∉ names rest ∧ "Write" ∉ names (pre fctx fd) := by
  refine ⟨_, rfl, ?_, ?_, ?_⟩
  · simp [pre, names]
  · cases p.QueryLogEnabled <;> cases fd.2.2 <;> simp [names]
  · simp [pre, names]

/-- The query log is written iff the profile has query logging enabled — then exactly once, as the last effect. -/
theorem logged_iff_qlog (fctx : S_mainmw_filteringContext) (ri : S_agd_RequestInfo) (fd : String × String × Bool)
    (p : S_agd_Profile) (d : S_agd_Device) (start : String) (rd1 rd2 : Int × String × Bool) (rc name : String) (since : Int) :
    let tr := attributed fctx ri fd p d start rd1 rd2 rc name since
    ("Write" ∈ names tr ↔ p.QueryLogEnabled = true) ∧
    (p.QueryLogEnabled = true → (names tr).count "Write" = 1 ∧
      tr.getLast? = some ("Write", ["_", reprStr (some (entryOf fctx ri p d start rd1 rc name since))])) := by
  cases hq : p.QueryLogEnabled <;> cases hb : fd.2.2 <;> simp [attributed, pre, billCall, names, hq, hb]

/-- The entry carries the client address only with `IPLogEnabled`; otherwise the zero address. -/
theorem entry_ip_only_if_iplog (fctx : S_mainmw_filteringContext) (ri : S_agd_RequestInfo) (p : S_agd_Profile)
    (d : S_agd_Device) (start : String) (rd : Int × String × Bool) (rc name : String) (since : Int) :
    let e := entryOf fctx ri p d start rd rc name since
    (p.IPLogEnabled = false → e.RemoteIP = "") ∧ (p.IPLogEnabled = true → e.RemoteIP = ri.RemoteIP) := by
  cases h : p.IPLogEnabled <;> simp [entryOf, h]

/-- The entry describes its own request: name, type, protocol from this request; the RCODE and AD flag of the
*filtered* response; this request's filtering results; this profile and device. -/
theorem entry_describes_request (fctx : S_mainmw_filteringContext) (ri : S_agd_RequestInfo) (p : S_agd_Profile)
    (d : S_agd_Device) (start : String) (rd : Int × String × Bool) (rc name : String) (since : Int) :
    let e := entryOf fctx ri p d start rd rc name since
    e.DomainFQDN = name ∧ e.RequestType = ri.QType ∧ e.Protocol = ri.Proto ∧ e.ResponseCode = rd.1 ∧ e.DNSSEC = rd.2.2 ∧
    e.RequestResult = fctx.requestResult ∧ e.ResponseResult = fctx.responseResult ∧ e.ProfileID = p.ID ∧
    e.DeviceID = d.ID ∧ e.Time = start ∧ e.ResponseCountry = rc := by
  simp [entryOf]

/-! ### Against the hand model `Agd.Record.record` -/

/-- For every model request `q` and every translated environment that agrees with it on "is there a profile"
and on the two logging flags: billing is called iff the model bills, the log is written iff the model logs,
and the written entry has the client address iff the model's entry has one. -/
theorem record_tr (q : Agd.Record.Req) (mw : S_mainmw_Middleware) (fctx : S_mainmw_filteringContext)
    (ri : S_agd_RequestInfo) (fd : String × String × Bool) (prof : Option S_agd_Profile) (dev : Option S_agd_Device)
    (r : S_dnsserver_RequestInfo) (rd1 rd2 : Int × String × Bool) (rc name : String) (since : Int) (werr : Option String)
    (hanon : q.dev.data = none ↔ prof = none)
    (hdev : prof ≠ none → dev ≠ none)
    (hflags : ∀ mp md p, q.dev.data = some (mp, md) → prof = some p →
      mp.qlog = p.QueryLogEnabled ∧ mp.iplog = p.IPLogEnabled) :
    ∃ tr, recordQueryInfo mw fctx ri fd (prof, dev) (some r) rd1 rd2 () rc name since werr = some tr ∧
      ("Record" ∈ names tr ↔ (Agd.Record.record q).bill.isSome) ∧
      ("Write" ∈ names tr ↔ (Agd.Record.record q).log.isSome) ∧
      ∀ me, (Agd.Record.record q).log = some me → ∃ e : S_querylog_Entry, tr.getLast? = some ("Write", ["_", reprStr (some e)]) ∧
        (me.ip = none → e.RemoteIP = "") ∧ (me.ip ≠ none → e.RemoteIP = ri.RemoteIP) := by
  cases hp : prof with
  | none =>
    have hq : q.dev.data = none := hanon.mpr hp
    refine ⟨_, anonymous_only_rulestat .., ?_, ?_, ?_⟩ <;> simp [Agd.Record.record, hq, pre, names]
  | some p =>
    have hd : dev ≠ none := hdev (by simp [hp])
    obtain ⟨d, rfl⟩ := Option.ne_none_iff_exists'.mp hd
    have hq : q.dev.data ≠ none := fun h => by simp [hanon.mp h] at hp
    obtain ⟨⟨mp, md⟩, hq⟩ := Option.ne_none_iff_exists'.mp hq
    obtain ⟨h1, h2⟩ := hflags mp md p hq hp
    refine ⟨_, attributed_spec .., ?_, ?_, ?_⟩
    · cases hql : p.QueryLogEnabled <;> cases hb : fd.2.2 <;>
        simp [Agd.Record.record, hq, attributed, pre, billCall, names, hql, hb, h1]
    · cases hql : p.QueryLogEnabled <;> cases hb : fd.2.2 <;>
        simp [Agd.Record.record, hq, attributed, pre, billCall, names, hql, hb, h1]
    · intro me hme
      cases hql : p.QueryLogEnabled
      · simp [Agd.Record.record, hq, h1, hql] at hme
      · refine ⟨entryOf fctx ri p d r.StartTime rd1 rc name since, ?_, ?_, ?_⟩
        · cases hb : fd.2.2 <;> simp [attributed, hql, hb]
        · intro hip
          simp [Agd.Record.record, hq, h1, hql] at hme
          cases hi : p.IPLogEnabled
          · simp [entryOf, hi]
          · rw [← hme] at hip; simp [h2, hi] at hip
        · intro hip
          simp [Agd.Record.record, hq, h1, hql] at hme
          cases hi : p.IPLogEnabled
          · rw [← hme] at hip; simp [h2, hi] at hip
          · simp [entryOf, hi]

/-- Non-vacuity of `record_tr`'s hypotheses: a model request attributed to an opted-in profile (query log on,
IP log off) and a translated environment with the same flags. -/
example :
    let q : Agd.Record.Req :=
      { port0 := false, dev := .ok ⟨[112], true, false⟩ [100], globBlockIP := false, globBlockHost := false, profBlock := false,
        badECS := false, rlDrop := false, profRl := 0, special := false, debug := false, adWanted := false, ctxErr := false,
        upErr := false, writeErr := false, reqRes := ⟨.blocked, [108], [109]⟩, respRes := Agd.Record.FRes.nil, blockErr := false,
        name := [97, 46], qtype := 1, proto := 8, remoteIP := [49], reqId := [117], startMs := 5, elapsedMs := 0,
        loc := some ([82, 85], 7), orig := ⟨0, false, .addr⟩, blockedResp := ⟨0, false, .unspec⟩, modResp := ⟨0, false, .none⟩,
        geoCtry := [85, 83] }
    let p : S_agd_Profile := ⟨none, "p", [], 10, false, false, false, false, false, true, false, true⟩
    let prof : Option S_agd_Profile := some p
    let dev : Option S_agd_Device := some ⟨none, "d", "", "", "", [], true⟩
    (q.dev.data = none ↔ prof = none) ∧ (prof ≠ none → dev ≠ none) ∧
    (∀ mp md p', q.dev.data = some (mp, md) → prof = some p' → mp.qlog = p'.QueryLogEnabled ∧ mp.iplog = p'.IPLogEnabled) ∧
    (Agd.Record.record q).log.isSome = true := by
  refine ⟨by decide, by decide, ?_, by decide⟩
  intro mp md p' h1 h2
  cases h1; cases h2; decide

/-- A concrete attributed, opted-in, blocked request: billing then the log, with the client address. -/
example :
    let p : S_agd_Profile := ⟨none, "prof1", [], 10, false, false, false, false, false, true, true, true⟩
    let d : S_agd_Device := ⟨none, "dev1", "", "phone", "", [], true⟩
    let ri : S_agd_RequestInfo := ⟨some ⟨"CY", "EU", "", 64500⟩, none, none, none, none, "192.0.2.7", "srv", "blocked.example", 1, 1, 8⟩
    let tr := recordQueryInfo ⟨none, none⟩ ⟨some "*filter.ResultBlocked", none, 0, false⟩ ri ("adguard_dns_filter", "||blocked.example^", true)
      (some p, some d) (some ⟨"t0", ""⟩) (0, "0.0.0.0", false) (0, "198.51.100.1", false) () "US" "blocked.example." 3 none
    tr.map names = some ["filteringData", "Collect", "DeviceData", "MustRequestInfoFromContext", "Record",
      "responseData", "responseData", "responseCountry", "Write"] := by
  decide

/-! ## Where the profile's switches come from: `filecachepb.Profile.toInternal`, `backendpb.DNSProfile.toInternal`

The two converters that build the `agd.Profile` which `recordQueryInfo` reads — from the cache file after a
restart, from the backend's message on a synchronisation.  Everything they call (blocking mode, schedule, ID
validation, devices, rule lists, …) is opaque; the theorems say that *whenever* a profile comes out, its logging
switches, its `Deleted` mark and its ID are the message's own fields of the same meaning — for every message and
every behaviour of the callees — and that this is the hand model's `profOfCache` / `profOfBackend`. -/

/-- The bytes of a Go string. -/
def bytes (s : String) : Agd.Record.Str := s.toUTF8.toList.map (·.toNat)

/-- The hand model's view of an `agd.Profile`. -/
def dbView (p : S_agd_Profile) : Agd.Record.DBProf := ⟨⟨bytes p.ID, p.QueryLogEnabled, p.IPLogEnabled⟩, p.Deleted⟩

/-- The hand model's view of a cache-file `Profile` message. -/
def cacheView (x : S_filecachepb_Profile) : Agd.Record.CacheProf :=
  ⟨bytes x.ProfileId, x.QueryLogEnabled, x.IpLogEnabled, x.Deleted⟩

/-- **fcProfileToInternal_switches.** A profile read back from the cache file has the file's
`query_log_enabled` as its query-log switch, the file's `ip_log_enabled` as its IP-log switch, the file's
`deleted` and `profile_id`; and when no profile comes out there is an error. -/
theorem fcProfileToInternal_switches (x : S_filecachepb_Profile) (sz : Int) (o1 : AbsPtr × Option String)
    (o2 : Option S_filter_ConfigSchedule × Option String) (o3 o4 o5 : List String) (o6 : Int)
    (r : Option S_agd_Profile × Option String) (h : fcProfileToInternal x sz o1 o2 o3 o4 o5 o6 = some r) :
    (∀ p, r.1 = some p → p.QueryLogEnabled = x.QueryLogEnabled ∧ p.IPLogEnabled = x.IpLogEnabled ∧
      p.Deleted = x.Deleted ∧ p.ID = x.ProfileId ∧ r.2 = none) ∧ (r.1 = none → r.2 ≠ none) := by
  unfold fcProfileToInternal at h
  simp only [] at h
  split at h
  · cases h; simp
  · split at h
    · cases h; simp
    · split at h
      · cases h
      · cases h; simp

/-- The same as an equation with the hand model. -/
theorem fcProfileToInternal_tr (x : S_filecachepb_Profile) (sz : Int) (o1 : AbsPtr × Option String)
    (o2 : Option S_filter_ConfigSchedule × Option String) (o3 o4 o5 : List String) (o6 : Int)
    (p : S_agd_Profile) (e : Option String) (h : fcProfileToInternal x sz o1 o2 o3 o4 o5 o6 = some (some p, e)) :
    dbView p = Agd.Record.profOfCache (cacheView x) := by
  obtain ⟨h1, h2, h3, h4, _⟩ := (fcProfileToInternal_switches x sz o1 o2 o3 o4 o5 o6 _ h).1 p rfl
  simp [dbView, cacheView, Agd.Record.profOfCache, h1, h2, h3, h4]

/-- The hand model's view of the backend's `DNSProfile` message; the ID is the validated `dns_id`
(`agd.NewProfileID` returns its argument or an error). -/
def wireView (m : S_backendpb_DNSProfile) (validatedID : String) : Agd.Record.WireProf :=
  ⟨bytes validatedID, m.QueryLogEnabled, m.IpLogEnabled, m.Deleted⟩

/-- **bpProfileToInternal_switches.** A profile converted from the backend's message has the message's
`query_log_enabled`, `ip_log_enabled` and `deleted`, and the ID that `NewProfileID` returned. -/
theorem bpProfileToInternal_switches (x : Option S_backendpb_DNSProfile) (upd : String) (sz : Int)
    (o1 : Option S_filter_ConfigParental × Option String) (o2 : AbsPtr × Option String)
    (o3 : List (Option S_agd_Device) × List String) (o4 : String × Option String) (e5 : AbsPtr) (o6 : Int)
    (o7 : List String) (o8 : Option S_filter_ConfigRuleList) (o9 : Option S_filter_ConfigSafeBrowsing)
    (p : S_agd_Profile) (ds : List (Option S_agd_Device)) (e : Option String)
    (h : bpProfileToInternal x upd sz o1 o2 o3 o4 e5 o6 o7 o8 o9 = some (some p, ds, e)) :
    ∃ m, x = some m ∧ p.QueryLogEnabled = m.QueryLogEnabled ∧ p.IPLogEnabled = m.IpLogEnabled ∧
      p.Deleted = m.Deleted ∧ p.ID = o4.1 ∧ o4.2 = none ∧ e = none := by
  cases x with
  | none => simp [bpProfileToInternal] at h
  | some m =>
    refine ⟨m, rfl, ?_⟩
    unfold bpProfileToInternal at h
    simp only [Option.isNone_some, Bool.false_eq_true, if_false] at h
    split at h
    · simp at h
    · split at h
      · simp at h
      · split at h
        · simp at h
        · rename_i hid
          split at h <;> simp at h <;> obtain ⟨hp, _, he⟩ := h <;> subst hp <;> simp_all

theorem bpProfileToInternal_tr (x : Option S_backendpb_DNSProfile) (upd : String) (sz : Int)
    (o1 : Option S_filter_ConfigParental × Option String) (o2 : AbsPtr × Option String)
    (o3 : List (Option S_agd_Device) × List String) (o4 : String × Option String) (e5 : AbsPtr) (o6 : Int)
    (o7 : List String) (o8 : Option S_filter_ConfigRuleList) (o9 : Option S_filter_ConfigSafeBrowsing)
    (p : S_agd_Profile) (ds : List (Option S_agd_Device)) (e : Option String)
    (h : bpProfileToInternal x upd sz o1 o2 o3 o4 e5 o6 o7 o8 o9 = some (some p, ds, e)) :
    ∃ m, x = some m ∧ dbView p = Agd.Record.profOfBackend (wireView m o4.1) := by
  obtain ⟨m, hm, h1, h2, h3, h4, _⟩ := bpProfileToInternal_switches x upd sz o1 o2 o3 o4 e5 o6 o7 o8 o9 p ds e h
  exact ⟨m, hm, by simp [dbView, wireView, Agd.Record.profOfBackend, h1, h2, h3, h4]⟩

/-- Non-vacuity: a cache-file profile with query logging on and IP logging off comes back exactly so. -/
example :
    let x : S_filecachepb_Profile :=
      { sizeCache := 0, unknownFields := [], FilterConfig := some ⟨0, [], none, some ⟨0, [], none, [], false, false, false, false⟩,
          some ⟨0, [], [], false⟩, some ⟨0, [], false, false, false⟩⟩, Access := none, Ratelimiter := none, ProfileId := "prof1",
        DeviceIds := ["d"], AutoDevicesEnabled := true, BlockChromePrefetch := true, BlockFirefoxCanary := true,
        BlockPrivateRelay := true, Deleted := false, FilteringEnabled := true, IpLogEnabled := false, QueryLogEnabled := true }
    (fcProfileToInternal x 0 (true, none) (none, none) [] [] ["d"] 10).map
      (fun r => r.1.map fun p => (p.QueryLogEnabled, p.IPLogEnabled, p.Deleted, p.ID)) = some (some (true, false, false, "prof1")) := by
  decide


/-! ## `ipFromHTTPSRR` and `ipFromAnswer` (round 3c)

`dns.RR` values are symbolic (`Option String`: the dynamic type), so the answer section is the list of its
records' types and the type switch compares them; `[]dns.SVCBKeyValue` is a list of tokens handed to the function
parameter `f_ipFromHTTPSRRKV`; `netutil.IPToAddr` is the function parameter `f_IPToAddr` of the `net.IP` and the
family.  Both definitions are total (no `Option`): the translated code has no panic site. -/

/-- What both functions do with the `net.IP` and family they settled on: nil → zero address, no error;
otherwise `netutil.IPToAddr`, whose error is wrapped and whose address is returned (address, error?). -/
def convOut (conv : List Int → Int → String × Option String) (fam : Int) (netIP : List Int) : String × Bool :=
  if netIP.isEmpty then ("", false)
  else if (conv netIP fam).2.isSome then ("", true) else ((conv netIP fam).1, false)

/-- What a caller observes of a result: the address and whether there is an error (the error *text* is
the source text of the `fmt.Errorf` call and would follow a renaming of a local). -/
def obs (r : String × Option String) : String × Bool := (r.1, r.2.isSome)

/-- The state in which the scan of `ipFromHTTPSRR` stops. -/
def scanSt (f : String → Int × List Int) : List String → Int × List Int → Int × List Int
  | [], st => st
  | v :: vs, _ => if (f v).1 = 0 then scanSt f vs (f v) else f v

theorem httpsScan (f : String → Int × List Int)
    (body : Int × List Int → Int → String → Step (Int × List Int) (String × Option String))
    (hbody : ∀ st i v, body st i v = if (f v).1 = 0 then .next (f v) else .brk (f v)) :
    ∀ (vs : List String) (i : Int) (st : Int × List Int), goRangeFrom i vs st body = .inl (scanSt f vs st)
  | [], _, _ => rfl
  | v :: vs, i, st => by
    rw [goRangeFrom, hbody, scanSt]
    by_cases h0 : (f v).1 = 0
    · simp only [h0, if_true]; exact httpsScan f body hbody vs (i + 1) (f v)
    · simp only [h0, if_false]

theorem scanSt_find (f : String → Int × List Int) (hf : ∀ v, (f v).1 = 0 → (f v).2 = []) :
    ∀ (vs : List String) (st : Int × List Int), st.2 = [] →
      match vs.find? (fun v => (f v).1 != 0) with
      | none => (scanSt f vs st).2 = []
      | some v => scanSt f vs st = f v
  | [], st, h => h
  | v :: vs, st, h => by
    rw [scanSt, List.find?_cons]
    by_cases h0 : (f v).1 = 0
    · simp only [h0, if_true, bne_self_eq_false]
      exact scanSt_find f hf vs (f v) (hf v h0)
    · have : ((f v).1 != 0) = true := by simpa using h0
      simp only [h0, if_false, this]

/-- `ipFromHTTPSRR` in terms of the state its scan stops in (no assumption on `f`). -/
theorem ipFromHTTPSRR_first_scan (vs : List String) (f : String → Int × List Int) (conv : List Int → Int → String × Option String) :
    obs (ipFromHTTPSRR vs f conv) = convOut conv (scanSt f vs (0, [])).1 (scanSt f vs (0, [])).2 := by
  unfold ipFromHTTPSRR goRange
  simp only []
  rw [httpsScan f _ ?_ vs 0 (0, [])]
  · generalize scanSt f vs (0, []) = st
    by_cases he : st.2 = [] <;> by_cases hc : (conv st.2 st.1).2.isSome = true <;> simp [he, hc, convOut, obs]
  · intro st i v
    by_cases h0 : (f v).1 = 0 <;> simp [h0]
    exact Prod.ext h0.symm rfl

/-- **`ipFromHTTPSRR`: the first parameter for which `ipFromHTTPSRRKV` reports a family decides**, for
every list of parameters and every `ipFromHTTPSRRKV` / `IPToAddr` behaviour (`hf`: no family ⇒ nil IP,
which `ipFromHTTPSRRKV_spec` gives for the translated `ipFromHTTPSRRKV`). -/
theorem ipFromHTTPSRR_first (vs : List String) (f : String → Int × List Int) (conv : List Int → Int → String × Option String)
    (hf : ∀ v, (f v).1 = 0 → (f v).2 = []) :
    obs (ipFromHTTPSRR vs f conv) =
      match vs.find? (fun v => (f v).1 != 0) with
      | none => ("", false)
      | some v => convOut conv (f v).1 (f v).2 := by
  rw [ipFromHTTPSRR_first_scan]
  have h2 := scanSt_find f hf vs (0, []) rfl
  cases hfind : vs.find? (fun v => (f v).1 != 0) with
  | none => rw [hfind] at h2; simp [h2, convOut]
  | some v => rw [hfind] at h2; rw [h2]

/-- Where the scan of `ipFromAnswer` stops: at the first A, AAAA or HTTPS record. -/
def ansScan (rrtype : Int) (eA eAAAA : List Int) (h : String × Option String) :
    List (Option String) → Int × Int × List Int → (Int × Int × List Int) ⊕ (String × Option String)
  | [], st => .inl st
  | t :: ts, st =>
    if t = some "*dns.A" then .inl (1, rrtype, eA)
    else if t = some "*dns.AAAA" then .inl (2, rrtype, eAAAA)
    else if t = some "*dns.HTTPS" then .inr h
    else ansScan rrtype eA eAAAA h ts st

theorem answerScan (rrtype : Int) (eA eAAAA : List Int) (h : String × Option String)
    (body : Int × Int × List Int → Int → Option String → Step (Int × Int × List Int) (String × Option String))
    (hbody : ∀ st i t, body st i t =
      if t = some "*dns.A" then .brk (1, rrtype, eA) else if t = some "*dns.AAAA" then .brk (2, rrtype, eAAAA)
      else if t = some "*dns.HTTPS" then .ret h else .next st) :
    ∀ (ts : List (Option String)) (i : Int) (st : Int × Int × List Int),
      goRangeFrom i ts st body = ansScan rrtype eA eAAAA h ts st
  | [], _, _ => rfl
  | t :: ts, i, st => by
    rw [goRangeFrom, hbody, ansScan]
    by_cases h1 : t = some "*dns.A"
    · rw [if_pos h1, if_pos h1]
    by_cases h2 : t = some "*dns.AAAA"
    · rw [if_neg h1, if_neg h1, if_pos h2, if_pos h2]
    by_cases h3 : t = some "*dns.HTTPS"
    · rw [if_neg h1, if_neg h1, if_neg h2, if_neg h2, if_pos h3, if_pos h3]
    · rw [if_neg h1, if_neg h1, if_neg h2, if_neg h2, if_neg h3, if_neg h3]
      exact answerScan rrtype eA eAAAA h body hbody ts (i + 1) st

/-- The record types `ipFromAnswer` stops at. -/
def decides (t : Option String) : Bool := t == some "*dns.A" || t == some "*dns.AAAA" || t == some "*dns.HTTPS"

/-- **`ipFromAnswer`: records of other types are skipped and the first A, AAAA or HTTPS record decides**, for
every answer section (as the list of the records' dynamic types) and every value of the opaque reads:
an A record gives family 4 and its `A` field to `IPToAddr`, an AAAA record family 6 and its `AAAA` field,
an HTTPS record the result of `ipFromHTTPSRR` unchanged; no such record: the zero address, no error.
(`loop_opaque`: each of `rrtype`, `eA`, `eAAAA`, `h` is read in at most one iteration — the one the loop
leaves from — so one parameter per read loses nothing here.) -/
theorem ipFromAnswer_first (ans : List (Option String)) (rrtype : Int) (eA eAAAA : List Int) (h : String × Option String)
    (conv : List Int → Int → String × Option String) :
    obs (ipFromAnswer ans rrtype eA eAAAA h conv) =
      match ans.find? decides with
      | none => ("", false)
      | some t =>
        if t = some "*dns.A" then convOut conv 1 eA
        else if t = some "*dns.AAAA" then convOut conv 2 eAAAA
        else obs h := by
  unfold ipFromAnswer goRange
  simp only []
  rw [answerScan rrtype eA eAAAA h _ ?_ ans 0 (0, 0, [])]
  · induction ans with
    | nil => simp [ansScan, obs]
    | cons t ts ih =>
      rw [ansScan, List.find?_cons]
      by_cases h1 : t = some "*dns.A"
      · by_cases he : eA = [] <;> by_cases hc : (conv eA 1).2.isSome = true <;> simp [he, hc, h1, decides, convOut, obs]
      by_cases h2 : t = some "*dns.AAAA"
      · by_cases he : eAAAA = [] <;> by_cases hc : (conv eAAAA 2).2.isSome = true <;> simp [he, hc, h2, decides, convOut, obs]
      by_cases h3 : t = some "*dns.HTTPS"
      · simp [h3, decides]
      · have : decides t = false := by simp [decides, h1, h2, h3]
        simp only [h1, h2, h3, if_false, this]
        exact ih
  · intro st i t
    by_cases h1 : t = some "*dns.A"
    · simp [h1]
    by_cases h2 : t = some "*dns.AAAA"
    · simp [h2]
    by_cases h3 : t = some "*dns.HTTPS"
    · simp [h3]
    · simp [h1, h2, h3]

/-! ### Against the hand model (`Agd.Record.ipFromKVs`, `Agd.Record.ipFromAnswer`)

The model sees an address as `IPVal` (nil / unusable / unspecified / other) and the outcome as `IPKind`.
`enc` is any encoding of `IPVal` as `net.IP` bytes that keeps nil apart, `conv` any `IPToAddr` and
`isUnspec` any reading of the resulting address that agree with `ipOfVal` (`Faithful`). -/
open Agd.Record

def kindOf (isUnspec : String → Bool) (ip : String) : IPKind :=
  if ip = "" then .none else if isUnspec ip then .unspec else .addr

structure Faithful (enc : IPVal → List Int) (conv : List Int → Int → String × Option String) (isUnspec : String → Bool) : Prop where
  nil_iff : ∀ v, enc v = [] ↔ v = .nil
  conv_ok : ∀ v fam, v ≠ .nil → kindOf isUnspec (if (conv (enc v) fam).2.isSome then "" else (conv (enc v) fam).1) = ipOfVal v

theorem convOut_kind {enc conv isUnspec} (hF : Faithful enc conv isUnspec) (fam : Int) (v : IPVal) :
    kindOf isUnspec (convOut conv fam (enc v)).1 = ipOfVal v := by
  unfold convOut
  by_cases hv : v = .nil
  · subst hv; simp [(hF.nil_iff .nil).2 rfl, kindOf, ipOfVal]
  · have hne : enc v ≠ [] := fun h => hv ((hF.nil_iff v).1 h)
    have := hF.conv_ok v fam hv
    simp only [List.isEmpty_iff, hne, if_false]
    split <;> simp_all

/-- What `ipFromHTTPSRRKV` reports for a parameter of the model. -/
def kvRes (enc : IPVal → List Int) : KV → Int × List Int
  | .hint4 (h :: _) => (1, enc h)
  | .hint6 (h :: _) => (2, enc h)
  | _ => (0, [])

theorem scanSt_model {enc conv isUnspec} (hF : Faithful enc conv isUnspec) (f : String → Int × List Int)
    (g : String → KV) :
    ∀ (ts : List String) (st : Int × List Int), (∀ t ∈ ts, f t = kvRes enc (g t)) → st.2 = [] →
      kindOf isUnspec (convOut conv (scanSt f ts st).1 (scanSt f ts st).2).1 = ipFromKVs (ts.map g)
  | [], st, _, h => by simp [scanSt, convOut, h, kindOf, ipFromKVs]
  | t :: ts, st, hf, _ => by
    have ih := scanSt_model hF f g ts (0, []) (fun t ht => hf t (by simp [ht])) rfl
    rw [scanSt, hf t (by simp), List.map_cons]
    match hg : g t with
    | .hint4 (v :: _) => simpa [kvRes, ipFromKVs] using convOut_kind hF 1 v
    | .hint6 (v :: _) => simpa [kvRes, ipFromKVs] using convOut_kind hF 2 v
    | .hint4 [] => simpa [kvRes, ipFromKVs] using ih
    | .hint6 [] => simpa [kvRes, ipFromKVs] using ih
    | .other => simpa [kvRes, ipFromKVs] using ih

/-- **The model's `ipFromKVs` is the translated `ipFromHTTPSRR`**: for every list of tokens `ts`, every
reading `g` of the tokens as parameters of the model (so `ts.map g` is an arbitrary model list) and any `f` that
answers for each token what `ipFromHTTPSRRKV` reports for that parameter. -/
theorem ipFromHTTPSRR_tr {enc conv isUnspec} (hF : Faithful enc conv isUnspec) (f : String → Int × List Int)
    (g : String → KV) (ts : List String) (h : ∀ t ∈ ts, f t = kvRes enc (g t)) :
    kindOf isUnspec (obs (ipFromHTTPSRR ts f conv)).1 = ipFromKVs (ts.map g) := by
  have h1 := ipFromHTTPSRR_first_scan ts f conv
  have key := scanSt_model hF f g ts (0, []) h rfl
  rw [h1, key]

def tyName : RR → Option String
  | .a _ => some "*dns.A" | .aaaa _ => some "*dns.AAAA" | .https _ => some "*dns.HTTPS" | .other => some "*dns.CNAME"
/-- The value read by `v.A` / `v.AAAA` in the iteration that leaves the loop, the parameters of the HTTPS record
`ipFromHTTPSRR` is called with. -/
def firstA : List RR → IPVal
  | [] => .nil | .a ip :: _ => ip | _ :: r => firstA r
def firstAAAA : List RR → IPVal
  | [] => .nil | .aaaa ip :: _ => ip | _ :: r => firstAAAA r
def firstHTTPS : List RR → Option (List KV)
  | [] => none | .https kvs :: _ => some kvs | _ :: r => firstHTTPS r

/-- **The model's `ipFromAnswer` is the translated `ipFromAnswer`**, for every answer section of the model:
`hh` says that the opaque result `h` of `ipFromHTTPSRR` is what `ipFromHTTPSRR_tr` gives for the first HTTPS
record (if there is one). -/
theorem ipFromAnswer_tr {enc conv isUnspec} (hF : Faithful enc conv isUnspec) (rrtype : Int) (h : String × Option String) :
    ∀ (rs : List RR), (∀ kvs, firstHTTPS rs = some kvs → kindOf isUnspec h.1 = ipFromKVs kvs) →
      kindOf isUnspec (obs (ipFromAnswer (rs.map tyName) rrtype (enc (firstA rs)) (enc (firstAAAA rs)) h conv)).1 =
        Agd.Record.ipFromAnswer rs
  | [], _ => by rw [ipFromAnswer_first]; simp [kindOf, Agd.Record.ipFromAnswer]
  | .a ip :: r, _ => by
    rw [ipFromAnswer_first]
    simpa [tyName, decides, firstA, Agd.Record.ipFromAnswer] using convOut_kind hF 1 ip
  | .aaaa ip :: r, _ => by
    rw [ipFromAnswer_first]
    simpa [tyName, decides, firstAAAA, Agd.Record.ipFromAnswer] using convOut_kind hF 2 ip
  | .https kvs :: r, hh => by
    rw [ipFromAnswer_first]
    simpa [tyName, decides, Agd.Record.ipFromAnswer, obs] using hh kvs rfl
  | .other :: r, hh => by
    have ih := ipFromAnswer_tr hF rrtype h r (fun kvs hk => hh kvs (by simpa [firstHTTPS] using hk))
    rw [ipFromAnswer_first] at ih ⊢
    simpa [tyName, decides, firstA, firstAAAA, Agd.Record.ipFromAnswer] using ih

/-- A faithful reading exists (so the equivalences are not vacuous), and a non-trivial instance. -/
def encEx : IPVal → List Int | .nil => [] | .bad => [0] | .unspec => [0, 0, 0, 0] | .addr => [1, 2, 3, 4]
def convEx (ip : List Int) (_ : Int) : String × Option String :=
  if ip = [0, 0, 0, 0] then ("0.0.0.0", none) else if ip = [1, 2, 3, 4] then ("1.2.3.4", none) else ("", some "bad")
theorem faithfulEx : Faithful encEx convEx (· = "0.0.0.0") := by
  constructor
  · intro v; cases v <;> simp [encEx]
  · intro v fam hv; cases v <;> simp_all [encEx, convEx, kindOf, ipOfVal]
example : ipFromAnswer [some "*dns.CNAME", some "*dns.AAAA", some "*dns.A"] 28 [9] [1, 2, 3, 4] ("x", none) convEx = ("1.2.3.4", none) := by
  decide
example : ipFromHTTPSRR ["alpn", "ipv4hint", "ipv6hint"] (fun t => if t = "ipv4hint" then (1, [1, 2, 3, 4]) else if t = "ipv6hint" then (2, [0, 0, 0, 0]) else (0, [])) convEx = ("1.2.3.4", none) := by
  decide

end Agd.Tie.TrC15
#print axioms Agd.Tie.TrC15.httpsScan
#print axioms Agd.Tie.TrC15.scanSt_find
#print axioms Agd.Tie.TrC15.ipFromHTTPSRR_first_scan
#print axioms Agd.Tie.TrC15.ipFromHTTPSRR_first
#print axioms Agd.Tie.TrC15.answerScan
#print axioms Agd.Tie.TrC15.ipFromAnswer_first
#print axioms Agd.Tie.TrC15.convOut_kind
#print axioms Agd.Tie.TrC15.scanSt_model
#print axioms Agd.Tie.TrC15.ipFromHTTPSRR_tr
#print axioms Agd.Tie.TrC15.ipFromAnswer_tr
#print axioms Agd.Tie.TrC15.faithfulEx
