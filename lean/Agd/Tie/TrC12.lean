import Agd.Gen.TrC12
/-!
# C12: order of "install the new version" and "drop the cached results", as translated from the source

`Agd.Gen.TrC12.*` are regenerated on every run (`extract/tr.go`) from
`internal/filter/hashprefix/filter.go` (`refresh`, `clearCache`, `setInCache`) and
`internal/filter/internal/rulelist/refreshable.go` (`Refresh`).  Downloading, the hash storage, the
LRU caches, the locks and the generation counter are opaque calls recorded in the trace.
-/
namespace Agd.Tie.TrC12
open Agd.Gen.TrC12 Agd.TrPrelude

theorem translation_complete : translationFailures = [] := by decide

def names (tr : List (String × List String)) : List String := tr.map (·.1)

/-- Hash-prefix filter: a failed download or a failed reset clears nothing (the old hashes and their
cached results stay together); a successful one installs the new hashes FIRST and clears the result
cache (starting a new generation) afterwards. -/
theorem hp_reset_then_clear (f : S_hashprefix_Filter) (stale : Bool) (dl : String × Option String) (rs : Int × Option String) :
    let out := hp_refresh f stale dl rs
    (dl.2 ≠ none → "Reset" ∉ names out.2 ∧ "clearCache" ∉ names out.2 ∧ out.1 = dl.2) ∧
    (dl.2 = none → rs.2 ≠ none → "clearCache" ∉ names out.2 ∧ out.1 ≠ none) ∧
    (dl.2 = none → rs.2 = none → out.1 = none ∧
      names out.2 = ["Refresh", "Reset", "clearCache", "SetFilterStatus"]) := by
  cases h1 : dl.2 <;> cases h2 : rs.2 <;> simp [hp_refresh, names, h1, h2]

/-- Clearing starts a new generation and empties the cache under the write lock. -/
theorem hp_clear_bumps_generation (f : S_hashprefix_Filter) :
    hp_clearCache f = [("Lock", []), ("Add", ["1"]), ("Clear", []), ("Unlock", [])] := by
  simp [hp_clearCache]; decide

/-- A result computed under generation `gen` enters the cache only if the generation is still `gen`
(checked under the read lock that excludes `clearCache`). -/
theorem hp_set_only_same_generation (f : S_hashprefix_Filter) (gen k : Int) (m h : String) (cur : Int) :
    ("Set" ∈ names (hp_setInCache f gen k m h cur) ↔ cur = gen) ∧
    (names (hp_setInCache f gen k m h cur)).head? = some "RLock" ∧
    (names (hp_setInCache f gen k m h cur)).getLast? = some "RUnlock" := by
  by_cases hc : cur = gen <;> simp [hp_setInCache, names, hc]

/-- Rule list: the result cache is cleared and the new engine installed only after the download and
the compilation succeeded, and both happen inside one critical section, the clear first. -/
theorem rl_clear_and_swap_under_lock (f : S_rulelist_Refreshable) (stale : Bool) (dl : String × Option String)
    (st : AbsPtr × Option String) (eng : AbsPtr) :
    let out := rl_Refresh f stale dl st eng
    ((dl.2 ≠ none ∨ st.2 ≠ none) → "Clear" ∉ names out.2.2 ∧ "Lock" ∉ names out.2.2 ∧ out.1 = f ∧ out.2.1 ≠ none) ∧
    (dl.2 = none → st.2 = none → out.2.1 = none ∧
      names out.2.2 = ["Refresh", "NewRuleStorage", "Lock", "Clear", "NewDNSEngine", "set f.engine", "Unlock"]) := by
  cases h1 : dl.2 <;> cases h2 : st.2 <;> simp [rl_Refresh, names, h1, h2]

/-- Rule-list / blocked-service / safe-search result cache: `itemFromCache` never panics and reports a
hit exactly when the LRU holds an item under the key AND that item's host is the host asked for; the
item returned on a hit is the one found; nothing but the one `Get` touches the cache.  (The model's
`RL.lookup` is this decision with `S := ` the key type.) -/
theorem rl_item_hit_iff_same_host (key : Int) (host : String) (c : S_rulelist_CacheItem) :
    rl_itemFromCache key host (some c, true) =
      some (if c.host = host then (some c, true, [("Get", [toString key])])
            else (none, false, [("Get", [toString key])])) ∧
    (∀ x, rl_itemFromCache key host (x, false) = some (none, false, [("Get", [toString key])])) := by
  constructor
  · by_cases h : c.host = host <;> simp [rl_itemFromCache, h]
  · intro x; simp [rl_itemFromCache]

/-- The same for the hash-prefix result cache (the collision warning is logging only). -/
theorem hp_item_hit_iff_same_host (f : S_hashprefix_Filter) (key : Int) (host : String) (c : S_hashprefix_cacheItem) :
    hp_itemFromCache f key host (some c, true) =
      some (if c.host = host then (some c, true, [("Get", [toString key])])
            else (none, false, [("Get", [toString key])])) ∧
    (∀ x, hp_itemFromCache f key host (x, false) = some (none, false, [("Get", [toString key])])) := by
  constructor
  · by_cases h : c.host = host <;> simp [hp_itemFromCache, h]
  · intro x; simp [hp_itemFromCache]

/-- `filter.DNSResult`: with a real cache the key is `NewCacheKey(host, rrType, IN, isAns)`; a hit
returns the cached result without consulting the engine and without writing; a miss consults the
engine once and stores under the very key that was looked up; with `ResultCacheEmpty` no key is
computed at all. -/
theorem one_repr : toString (1 : Int) = "1" := by decide

theorem rl_dnsresult_hit_or_compute (f : S_rulelist_filter) (cn host : String) (qt : Int) (isAns : Bool)
    (emp : S_agdcache_Empty) (isEmpty : Bool) (k : Int) (it : Option S_rulelist_CacheItem) (hit : Bool)
    (cached : AbsPtr) (mr : AbsPtr × Bool) (nr : Int) :
    let out := rl_DNSResult f cn host qt isAns (emp, isEmpty) k (it, hit) cached mr nr
    (isEmpty = true → names out.2 = ["MatchRequest", "Set"]) ∧
    (isEmpty = false → hit = true → out = (cached,
        [("NewCacheKey", [host, toString qt, toString (1 : Int), toString isAns]), ("itemFromCache", ["_", toString k, host])])) ∧
    (isEmpty = false → hit = false →
        out.2 = [("NewCacheKey", [host, toString qt, toString (1 : Int), toString isAns]), ("itemFromCache", ["_", toString k, host]),
                 ("MatchRequest", ["_"]), ("Set", [toString k, "_"])]) := by
  refine ⟨?_, ?_, ?_⟩
  · intro h; subst h
    by_cases hc : (!mr.2 && decide (nr = 0)) = true <;> simp [rl_DNSResult, names, hc]
  · intro h1 h2; subst h1; subst h2; simp [rl_DNSResult]
  · intro h1 h2; subst h1; subst h2
    by_cases hc : (!mr.2 && decide (nr = 0)) = true <;> simp [rl_DNSResult, hc]

end Agd.Tie.TrC12

#print axioms Agd.Tie.TrC12.translation_complete
#print axioms Agd.Tie.TrC12.hp_reset_then_clear
#print axioms Agd.Tie.TrC12.hp_clear_bumps_generation
#print axioms Agd.Tie.TrC12.hp_set_only_same_generation
#print axioms Agd.Tie.TrC12.rl_clear_and_swap_under_lock
#print axioms Agd.Tie.TrC12.rl_item_hit_iff_same_host
#print axioms Agd.Tie.TrC12.hp_item_hit_iff_same_host
#print axioms Agd.Tie.TrC12.rl_dnsresult_hit_or_compute
