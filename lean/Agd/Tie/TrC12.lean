import Agd.Gen.TrC12
import Agd.Model.ResultCache
/-!
# C12: order of "install the new version" and "drop the cached results", as translated from the source

`Agd.Gen.TrC12.*` are regenerated on every run (`extract/tr.go`) from
`internal/filter/hashprefix/filter.go` (`refresh`, `clearCache`, `setInCache`) and
`internal/filter/internal/rulelist/refreshable.go` (`Refresh`).  Downloading, the hash storage, the
LRU caches, the locks and the generation counter are opaque calls recorded in the trace.
-/
namespace Agd.Tie.TrC12
open Agd.Gen.TrC12 Agd.TrPrelude

theorem translation_complete : translationFailures = [] := by decide

def names (tr : List (String × List String)) : List String := tr.map (·.1)

/-- Hash-prefix filter: a failed download or a failed reset clears nothing (the old hashes and their
cached results stay together); a successful one installs the new hashes FIRST and clears the result
cache (starting a new generation) afterwards. -/
theorem hp_reset_then_clear (f : S_hashprefix_Filter) (stale : Bool) (dl : String × Option String) (rs : Int × Option String) :
    let out := hp_refresh f stale dl rs
    (dl.2 ≠ none → "Reset" ∉ names out.2 ∧ "clearCache" ∉ names out.2 ∧ out.1 = dl.2) ∧
    (dl.2 = none → rs.2 ≠ none → "clearCache" ∉ names out.2 ∧ out.1 ≠ none) ∧
    (dl.2 = none → rs.2 = none → out.1 = none ∧
      names out.2 = ["Refresh", "Reset", "clearCache", "SetFilterStatus"]) := by
  cases h1 : dl.2 <;> cases h2 : rs.2 <;> simp [hp_refresh, names, h1, h2]

/-- Clearing starts a new generation and empties the cache under the write lock. -/
theorem hp_clear_bumps_generation (f : S_hashprefix_Filter) :
    hp_clearCache f = [("Lock", []), ("Add", ["1"]), ("Clear", []), ("Unlock", [])] := by
  simp [hp_clearCache]; decide

/-- A result computed under generation `gen` enters the cache only if the generation is still `gen`
(checked under the read lock that excludes `clearCache`). -/
theorem hp_set_only_same_generation (f : S_hashprefix_Filter) (gen k : Int) (m h : String) (cur : Int) :
    ("Set" ∈ names (hp_setInCache f gen k m h cur) ↔ cur = gen) ∧
    (names (hp_setInCache f gen k m h cur)).head? = some "RLock" ∧
    (names (hp_setInCache f gen k m h cur)).getLast? = some "RUnlock" := by
  by_cases hc : cur = gen <;> simp [hp_setInCache, names, hc]

/-- Rule list: the result cache is cleared and the new engine installed only after the download and
the compilation succeeded, and both happen inside one critical section, the clear first. -/
theorem rl_clear_and_swap_under_lock (f : S_rulelist_Refreshable) (stale : Bool) (dl : String × Option String)
    (st : AbsPtr × Option String) (eng : AbsPtr) :
    let out := rl_Refresh f stale dl st eng
    ((dl.2 ≠ none ∨ st.2 ≠ none) → "Clear" ∉ names out.2.2 ∧ "Lock" ∉ names out.2.2 ∧ out.1 = f ∧ out.2.1 ≠ none) ∧
    (dl.2 = none → st.2 = none → out.2.1 = none ∧
      names out.2.2 = ["Refresh", "NewRuleStorage", "Lock", "Clear", "NewDNSEngine", "set f.engine", "Unlock"]) := by
  cases h1 : dl.2 <;> cases h2 : st.2 <;> simp [rl_Refresh, names, h1, h2]

/-- Rule-list / blocked-service / safe-search result cache: `itemFromCache` never panics and reports a
hit exactly when the LRU holds an item under the key AND that item's host is the host asked for; the
item returned on a hit is the one found; nothing but the one `Get` touches the cache.  (The model's
`RL.lookup` is this decision with `S := ` the key type.) -/
theorem rl_item_hit_iff_same_host (key : Int) (host : String) (c : S_rulelist_CacheItem) :
    rl_itemFromCache key host (some c, true) =
      some (if c.host = host then (some c, true, [("Get", [toString key])])
            else (none, false, [("Get", [toString key])])) ∧
    (∀ x, rl_itemFromCache key host (x, false) = some (none, false, [("Get", [toString key])])) := by
  constructor
  · by_cases h : c.host = host <;> simp [rl_itemFromCache, h]
  · intro x; simp [rl_itemFromCache]

/-- The same for the hash-prefix result cache (the collision warning is logging only). -/
theorem hp_item_hit_iff_same_host (f : S_hashprefix_Filter) (key : Int) (host : String) (c : S_hashprefix_cacheItem) :
    hp_itemFromCache f key host (some c, true) =
      some (if c.host = host then (some c, true, [("Get", [toString key])])
            else (none, false, [("Get", [toString key])])) ∧
    (∀ x, hp_itemFromCache f key host (x, false) = some (none, false, [("Get", [toString key])])) := by
  constructor
  · by_cases h : c.host = host <;> simp [hp_itemFromCache, h]
  · intro x; simp [hp_itemFromCache]

/-- `filter.DNSResult`: with a real cache the key is `NewCacheKey(host, rrType, IN, isAns)`; a hit
returns the cached result without consulting the engine and without writing; a miss consults the
engine once and stores under the very key that was looked up; with `ResultCacheEmpty` no key is
computed at all. -/
theorem one_repr : toString (1 : Int) = "1" := by decide

theorem rl_dnsresult_hit_or_compute (f : S_rulelist_filter) (cn host : String) (qt : Int) (isAns : Bool)
    (emp : S_agdcache_Empty) (isEmpty : Bool) (k : Int) (it : Option S_rulelist_CacheItem) (hit : Bool)
    (cached : AbsPtr) (mr : AbsPtr × Bool) (nr : Int) :
    let out := rl_DNSResult f cn host qt isAns (emp, isEmpty) k (it, hit) cached mr nr
    (isEmpty = true → names out.2 = ["MatchRequest", "Set"]) ∧
    (isEmpty = false → hit = true → out = (cached,
        [("NewCacheKey", [host, toString qt, toString (1 : Int), toString isAns]), ("itemFromCache", ["_", toString k, host])])) ∧
    (isEmpty = false → hit = false →
        out.2 = [("NewCacheKey", [host, toString qt, toString (1 : Int), toString isAns]), ("itemFromCache", ["_", toString k, host]),
                 ("MatchRequest", ["_"]), ("Set", [toString k, "_"])]) := by
  refine ⟨?_, ?_, ?_⟩
  · intro h; subst h
    by_cases hc : (!mr.2 && decide (nr = 0)) = true <;> simp [rl_DNSResult, names, hc]
  · intro h1 h2; subst h1; subst h2; simp [rl_DNSResult]
  · intro h1 h2; subst h1; subst h2
    by_cases hc : (!mr.2 && decide (nr = 0)) = true <;> simp [rl_DNSResult, hc]

/-! ## `custom.Filters.get` (translator round 3; the code after the `fix:` commit "use a cached filter only
for the same update time") -/

/-- The decision structure of `get`: a miss returns nil without comparing anything; a cached item whose
update time is **not equal** to the configuration's is not used; an item with an equal time is returned
as it is.  The only way to panic is a hit (`ok`) without an item. -/
theorem custom_get_hit_iff_equal (f : S_custom_Filters) (item : Option S_custom_cacheItem) (ok : Bool) (id : String) (eq : Bool) :
    (custom_get f (item, ok) id eq = none ↔ (ok = true ∧ eq = true ∧ item = none)) ∧
    (ok = false → custom_get f (item, ok) id eq = some (none, [("Get", [id])])) ∧
    (ok = true → eq = false → custom_get f (item, ok) id eq = some (none, [("Get", [id]), ("Equal", ["_"])])) ∧
    (ok = true → eq = true → ∀ it, item = some it →
      custom_get f (item, ok) id eq = some (it.ruleList, [("Get", [id]), ("Equal", ["_"])])) := by
  cases ok <;> cases eq <;> cases item <;> simp [custom_get]

/-- The model's cache cell as the result of `f.cache.Get(c.ID)`; `rl` gives each model item the compiled
engine the real cache holds for it (non-nil for items the model stores). -/
def getOf (rl : Agd.ResultCache.CItem → S_rulelist_Immutable) (cell : Option Agd.ResultCache.CItem) :
    Option S_custom_cacheItem × Bool :=
  (cell.map fun i => ⟨some (rl i)⟩, cell.isSome)

/-- **Tie to the hand model** (`Agd.ResultCache.CU.step`, the `get` operation of an enabled configuration
with rules): for every model cache and every configuration, the translated `get` — given the model's
cell and the truth of `item.updTime.Equal(c.UpdateTime)` — returns a cached engine exactly when the
model answers from the cache without changing it (cell present with an equal update time), and it is
the engine of that cell; otherwise it returns nil and the model rebuilds (stores the configuration's rules
under its update time). -/
theorem custom_get_tr (f : S_custom_Filters) (rl : Agd.ResultCache.CItem → S_rulelist_Immutable)
    (s : Agd.ResultCache.CU) (c : Agd.ResultCache.Conf) (hen : c.enabled = true) (hr : c.rules.isEmpty = false) :
    let cell := s c.id
    let eq := match cell with | some it => decide (it.upd = c.upd) | none => false
    (custom_get f (getOf rl cell) c.id eq).map (·.1) =
      some (match cell with | some it => if it.upd = c.upd then some (rl it) else none | none => none) ∧
    (∀ it, cell = some it → it.upd = c.upd → s.step (.get c) = (s, some it.rules)) ∧
    ((∀ it, cell = some it → it.upd ≠ c.upd) → s.step (.get c) = (s.put c.id ⟨c.upd, c.rules⟩, some c.rules)) := by
  intro cell eq
  cases hc : s c.id with
  | none => simp [custom_get, getOf, cell, hc, Agd.ResultCache.CU.step, hen, hr]
  | some it =>
    by_cases he : it.upd = c.upd
    · simp [custom_get, getOf, cell, eq, hc, he, Agd.ResultCache.CU.step, hen, hr]
    · simp [custom_get, getOf, cell, eq, hc, he, Agd.ResultCache.CU.step, hen, hr]

/-- Non-vacuity: a cached engine compiled for update time 5 is not used for a configuration stamped 4
(the clock was set back) nor for one stamped 6, only for 5. -/
example : (custom_get ⟨⟩ (some ⟨some ⟨none⟩⟩, true) "p1" false).map (·.1) = some none ∧
    (custom_get ⟨⟩ (some ⟨some ⟨none⟩⟩, true) "p1" true).map (·.1) = some (some ⟨none⟩) := by decide

end Agd.Tie.TrC12

#print axioms Agd.Tie.TrC12.translation_complete
#print axioms Agd.Tie.TrC12.hp_reset_then_clear
#print axioms Agd.Tie.TrC12.hp_clear_bumps_generation
#print axioms Agd.Tie.TrC12.hp_set_only_same_generation
#print axioms Agd.Tie.TrC12.rl_clear_and_swap_under_lock
#print axioms Agd.Tie.TrC12.rl_item_hit_iff_same_host
#print axioms Agd.Tie.TrC12.hp_item_hit_iff_same_host
#print axioms Agd.Tie.TrC12.rl_dnsresult_hit_or_compute
