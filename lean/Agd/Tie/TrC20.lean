import Agd.Gen.TrC20
import Agd.Lemmas.Config
import Agd.Lemmas.ConfigShape
/-!
# C20: the section validators of the model accept exactly what the translated source accepts

`Agd.Gen.TrC20.*` are regenerated from `internal/cmd/*.go`, `internal/connlimiter/limiter.go` and
`internal/dnsserver/ratelimit/backoff.go` on every run (`extract/tr.go`).  For a validator the type is
`Option (Option String)` — outer `none` is a run-time panic (nil dereference), `some none` is
"accepted", `some (some text)` is a validation error labelled with the source text that made it.
For every translated validator there are three kinds of theorems:

* `…_total`   — validation never panics, whatever the section holds (also when it is missing);
* `…_accepts` — acceptance by the translated source ⇔ the documented constraints, stated outright;
* `…_tr`      — the hand-written `Agd.Config.val*` function (which every C20 theorem is about) accepts
                exactly when the translated validator does (range hypotheses: unsigned fields are ≥ 0).

The `toInternal` conversions and the constructors they feed (`connlimiter.New`, `ratelimit.NewBackoff`)
are translated too: `…_toInternal_ok` say that an *accepted* section converts without panic into values
the consumers can work with, `…_panics_iff` give the exact guard under which a conversion panics.
-/
namespace Agd.Tie.TrC20
open Agd.Gen.TrC20 Agd.TrPrelude Agd.Config

theorem translation_complete : translationFailures = [] := by decide

theorem ite_some_some {α : Type} (c : Prop) [Decidable c] (a b : α) :
    (if c then some a else some b) = some (if c then a else b) := by split <;> rfl

/-- Normalises a translated definition applied to a present section (`some s`). -/
macro "tr_norm" : tactic => `(tactic|
  simp only [Option.isNone_some, Option.isNone_none, Bool.false_eq_true, ↓reduceIte, Option.bind_some,
    Option.bind_none, Option.join_some, Option.join_none, ite_some_some, Option.isSome_some, Option.isSome_none])

theorem posErr_eq_none (p : Prop) [Decidable p] (e : String) : (if p then some e else none) = none ↔ ¬ p := by
  split <;> simp [*]

theorem firstErr_cons_eq_none (a : Option String) (r : List (Option String)) :
    firstErr (a :: r) = none ↔ a = none ∧ firstErr r = none := by
  cases a <;> simp

/-- `cmp.Or` / `errors.Join` over `validatePositive` and `validateProp` results is nil ⇔ every element is. -/
macro "tr_first" : tactic => `(tactic|
  simp only [Option.some.injEq, firstErr_cons_eq_none, firstErr_nil, posErr_eq_none, wrapErr_eq_none, and_true])

/-- Closes the arithmetic / propositional leftovers. -/
macro "tr_close" : tactic => `(tactic| all_goals (first | omega | (intros; omega) | grind))

/-! ## `ratelimit.connection_limit` -/

/-- The section as the translated code sees it. -/
def genConn (c : Config) : Option S_cmd_connLimitConfig :=
  if c.pCl then some { Stop := c.clStop, Resume := c.clResume, Enabled := c.clEnabled } else none

/-- Validation of the section never panics, whatever the section holds (also when it is missing). -/
theorem connLimit_total (x : Option S_cmd_connLimitConfig) : connLimitConfig_validate x ≠ none := by
  cases x with
  | none => simp [connLimitConfig_validate]
  | some s =>
    simp only [connLimitConfig_validate, Option.isNone_some, Bool.false_eq_true, ↓reduceIte, Option.bind_some]
    repeat' split
    all_goals simp

/-- Acceptance by the translated source, stated outright: present, and either disabled or
`0 < stop`, `0 < resume ≤ stop` (the fields are unsigned). -/
theorem connLimit_accepts (s : S_cmd_connLimitConfig) (h0 : 0 ≤ s.Stop) (h1 : 0 ≤ s.Resume) :
    connLimitConfig_validate (some s) = some none ↔
      (s.Enabled = false ∨ (0 < s.Stop ∧ 0 < s.Resume ∧ s.Resume ≤ s.Stop)) := by
  simp only [connLimitConfig_validate, Option.isNone_some, Bool.false_eq_true, ↓reduceIte, Option.bind_some]
  cases he : s.Enabled <;> simp
  repeat' split
  all_goals simp_all
  all_goals omega

/-- The model's `valConn` accepts exactly when the translated `connLimitConfig.validate` does. -/
theorem connLimit_tr (c : Config) (h0 : 0 ≤ c.clStop) (h1 : 0 ≤ c.clResume) :
    valConn false c = [] ↔ connLimitConfig_validate (genConn c) = some none := by
  unfold genConn
  cases hp : c.pCl
  · simp [valConn, sect, hp, connLimitConfig_validate]
  · simp only [↓reduceIte]
    rw [connLimit_accepts _ h0 h1]
    simp only [valConn, sect, hp, ↓reduceIte, pos]
    cases he : c.clEnabled <;> simp [firstOf]
    repeat' split
    all_goals simp_all [firstOf]
    all_goals omega

example : connLimitConfig_validate (genConn dist) = some none := by decide
example : connLimitConfig_validate (some ⟨10, 0, true⟩) = some (some "newNotPositiveError(\"resume\", c.Resume)") := by decide

/-! ## `ratelimit.allowlist`, `ratelimit.ipv4` / `ipv6`, `ratelimit.tcp`, `ratelimit.quic` -/

def genAllow (c : Config) : Option S_cmd_allowListConfig :=
  if c.pAl then some { Type' := c.alType, RefreshIvl := ⟨c.alRefresh⟩ } else none

def genOpts (p : Bool) (count ivl len : Int) : Option S_cmd_rateLimitOptions :=
  if p then some { Count := count, Interval := ⟨ivl⟩, SubnetKeyLen := len } else none

def genTcp (c : Config) : Option S_cmd_ratelimitTCPConfig :=
  if c.pTcp then some { MaxPipelineCount := c.tcpMax, Enabled := c.tcpEnabled } else none

def genQuic (c : Config) : Option S_cmd_ratelimitQUICConfig :=
  if c.pQuic then some { MaxStreamsPerPeer := c.quicMax, Enabled := c.quicEnabled } else none

theorem allow_total (x : Option S_cmd_allowListConfig) : allowListConfig_validate x ≠ none := by
  cases x with
  | none => simp [allowListConfig_validate]
  | some s => unfold allowListConfig_validate; tr_norm; repeat' split
              all_goals simp

/-- Accepted ⇔ the type is one of the two documented ones and the refresh interval is positive. -/
theorem allow_accepts (s : S_cmd_allowListConfig) :
    allowListConfig_validate (some s) = some none ↔
      ((s.Type' = "backend" ∨ s.Type' = "consul") ∧ 0 < s.RefreshIvl.Duration) := by
  unfold allowListConfig_validate; tr_norm
  repeat' split
  all_goals simp_all
  tr_close

theorem opts_total (x : Option S_cmd_rateLimitOptions) : rateLimitOptions_validate x ≠ none := by
  cases x with
  | none => simp [rateLimitOptions_validate]
  | some s => unfold rateLimitOptions_validate; tr_norm; exact Option.some_ne_none _

/-- Accepted ⇔ `count ≠ 0` (unsigned), `0 < interval`, `0 < subnet_key_len`. -/
theorem opts_accepts (s : S_cmd_rateLimitOptions) :
    rateLimitOptions_validate (some s) = some none ↔
      (s.Count ≠ 0 ∧ 0 < s.Interval.Duration ∧ 0 < s.SubnetKeyLen) := by
  unfold rateLimitOptions_validate; tr_norm; tr_first
  simp only [ne_eq, Int.not_le]

theorem keyLen_total (x : Option S_cmd_rateLimitOptions) (m : Int) :
    rateLimitOptions_validateSubnetKeyLen x m ≠ none := by
  cases x with
  | none => simp [rateLimitOptions_validateSubnetKeyLen]
  | some s => unfold rateLimitOptions_validateSubnetKeyLen; tr_norm; repeat' split
              all_goals simp

/-- The key-length bound: skipped on a missing section, otherwise `subnet_key_len ≤ maxLen`. -/
theorem keyLen_accepts (x : Option S_cmd_rateLimitOptions) (m : Int) :
    rateLimitOptions_validateSubnetKeyLen x m = some none ↔ ∀ s, x = some s → s.SubnetKeyLen ≤ m := by
  cases x with
  | none => simp [rateLimitOptions_validateSubnetKeyLen]
  | some s =>
    unfold rateLimitOptions_validateSubnetKeyLen; tr_norm
    repeat' split
    all_goals simp_all

theorem tcp_total (x : Option S_cmd_ratelimitTCPConfig) : ratelimitTCPConfig_validate x ≠ none := by
  cases x with
  | none => simp [ratelimitTCPConfig_validate]
  | some s => unfold ratelimitTCPConfig_validate; tr_norm; exact Option.some_ne_none _

/-- Accepted ⇔ `max_pipeline_count ≠ 0` (unsigned; checked whether or not the limit is enabled). -/
theorem tcp_accepts (s : S_cmd_ratelimitTCPConfig) :
    ratelimitTCPConfig_validate (some s) = some none ↔ s.MaxPipelineCount ≠ 0 := by
  unfold ratelimitTCPConfig_validate; tr_norm; tr_first

theorem quic_total (x : Option S_cmd_ratelimitQUICConfig) : ratelimitQUICConfig_validate x ≠ none := by
  cases x with
  | none => simp [ratelimitQUICConfig_validate]
  | some s => unfold ratelimitQUICConfig_validate; tr_norm; exact Option.some_ne_none _

/-- Accepted ⇔ `0 < max_streams_per_peer`. -/
theorem quic_accepts (s : S_cmd_ratelimitQUICConfig) :
    ratelimitQUICConfig_validate (some s) = some none ↔ 0 < s.MaxStreamsPerPeer := by
  unfold ratelimitQUICConfig_validate; tr_norm; tr_first; omega


/-! ## `ratelimit` as a whole -/

/-- The `ratelimit` section as the translated code sees it (`refuse_any` is not validated). -/
def genRl (c : Config) (refuseAny : Bool) : Option S_cmd_rateLimitConfig :=
  if c.pRl then some
    { Allowlist := genAllow c, ConnectionLimit := genConn c,
      IPv4 := genOpts c.pV4 c.v4Count c.v4Ivl c.v4Len, IPv6 := genOpts c.pV6 c.v6Count c.v6Ivl c.v6Len,
      QUIC := genQuic c, TCP := genTcp c, ResponseSizeEstimate := c.est, BackoffCount := c.bkCount,
      BackoffDuration := ⟨c.bkDur⟩, BackoffPeriod := ⟨c.bkPeriod⟩, RefuseANY := refuseAny }
  else none

theorem rateLimit_total (x : Option S_cmd_rateLimitConfig) : rateLimitConfig_validate x ≠ none := by
  cases x with
  | none => simp [rateLimitConfig_validate]
  | some s =>
    obtain ⟨a1, h1⟩ := Option.ne_none_iff_exists'.mp (allow_total s.Allowlist)
    obtain ⟨a2, h2⟩ := Option.ne_none_iff_exists'.mp (connLimit_total s.ConnectionLimit)
    obtain ⟨a3, h3⟩ := Option.ne_none_iff_exists'.mp (opts_total s.IPv4)
    obtain ⟨a4, h4⟩ := Option.ne_none_iff_exists'.mp (keyLen_total s.IPv4 32)
    obtain ⟨a5, h5⟩ := Option.ne_none_iff_exists'.mp (opts_total s.IPv6)
    obtain ⟨a6, h6⟩ := Option.ne_none_iff_exists'.mp (keyLen_total s.IPv6 128)
    obtain ⟨a7, h7⟩ := Option.ne_none_iff_exists'.mp (quic_total s.QUIC)
    obtain ⟨a8, h8⟩ := Option.ne_none_iff_exists'.mp (tcp_total s.TCP)
    unfold rateLimitConfig_validate; tr_norm
    simp only [h1, h2, h3, h4, h5, h6, h7, h8]; tr_norm
    exact Option.some_ne_none _

/-- `rateLimitConfig.validate` accepts ⇔ each of the six sub-sections is accepted by its own validator,
both key lengths fit their address family, and the four scalars are positive. -/
theorem rateLimit_accepts (s : S_cmd_rateLimitConfig) :
    rateLimitConfig_validate (some s) = some none ↔
      (allowListConfig_validate s.Allowlist = some none ∧
       connLimitConfig_validate s.ConnectionLimit = some none ∧
       rateLimitOptions_validate s.IPv4 = some none ∧
       rateLimitOptions_validateSubnetKeyLen s.IPv4 32 = some none ∧
       rateLimitOptions_validate s.IPv6 = some none ∧
       rateLimitOptions_validateSubnetKeyLen s.IPv6 128 = some none ∧
       ratelimitQUICConfig_validate s.QUIC = some none ∧
       ratelimitTCPConfig_validate s.TCP = some none ∧
       s.BackoffCount ≠ 0 ∧ 0 < s.BackoffDuration.Duration ∧ 0 < s.BackoffPeriod.Duration ∧
       s.ResponseSizeEstimate ≠ 0) := by
  obtain ⟨a1, h1⟩ := Option.ne_none_iff_exists'.mp (allow_total s.Allowlist)
  obtain ⟨a2, h2⟩ := Option.ne_none_iff_exists'.mp (connLimit_total s.ConnectionLimit)
  obtain ⟨a3, h3⟩ := Option.ne_none_iff_exists'.mp (opts_total s.IPv4)
  obtain ⟨a4, h4⟩ := Option.ne_none_iff_exists'.mp (keyLen_total s.IPv4 32)
  obtain ⟨a5, h5⟩ := Option.ne_none_iff_exists'.mp (opts_total s.IPv6)
  obtain ⟨a6, h6⟩ := Option.ne_none_iff_exists'.mp (keyLen_total s.IPv6 128)
  obtain ⟨a7, h7⟩ := Option.ne_none_iff_exists'.mp (quic_total s.QUIC)
  obtain ⟨a8, h8⟩ := Option.ne_none_iff_exists'.mp (tcp_total s.TCP)
  unfold rateLimitConfig_validate; tr_norm
  simp only [h1, h2, h3, h4, h5, h6, h7, h8]; tr_norm; tr_first
  -- independent of the order of the checks in the source
  constructor <;> (intro h; simp only [ne_eq, Int.not_le] at h ⊢; simp_all)


theorem genOpts_accepts (p : Bool) (count ivl len m : Int) (h0 : 0 ≤ count) :
    (valOpts false p a b d e count ivl len = [] ∧ valKeyLen false p e len m = []) ↔
      (rateLimitOptions_validate (genOpts p count ivl len) = some none ∧
       rateLimitOptions_validateSubnetKeyLen (genOpts p count ivl len) m = some none) := by
  unfold genOpts
  cases p
  · simp [valOpts, valKeyLen, rateLimitOptions_validate]
  · simp only [↓reduceIte, opts_accepts, keyLen_accepts]
    simp [valOpts, valKeyLen]
    omega

/-- The model's `valRatelimit` (repaired tree) accepts exactly when the translated
`rateLimitConfig.validate` does; the hypotheses say that the unsigned fields are not negative. -/
theorem rateLimit_tr (c : Config) (r : Bool) (h0 : 0 ≤ c.clStop) (h1 : 0 ≤ c.clResume)
    (h2 : 0 ≤ c.v4Count) (h3 : 0 ≤ c.v6Count) (h4 : 0 ≤ c.tcpMax) (h5 : 0 ≤ c.bkCount) (h6 : 0 ≤ c.est) :
    valRatelimit false c = [] ↔ rateLimitConfig_validate (genRl c r) = some none := by
  unfold genRl
  cases hp : c.pRl
  · simp [valRatelimit, hp, rateLimitConfig_validate]
  · simp only [↓reduceIte, rateLimit_accepts]
    have e4 := genOpts_accepts (a := .rlV4) (b := .rlV4Count) (d := .rlV4Ivl) (e := .rlV4Len) c.pV4 c.v4Count c.v4Ivl c.v4Len 32 h2
    have e6 := genOpts_accepts (a := .rlV6) (b := .rlV6Count) (d := .rlV6Ivl) (e := .rlV6Len) c.pV6 c.v6Count c.v6Ivl c.v6Len 128 h3
    have ec := connLimit_tr c h0 h1
    have ea : valAllow c = [] ↔ allowListConfig_validate (genAllow c) = some none := by
      unfold genAllow; cases hq : c.pAl
      · simp [valAllow, hq, allowListConfig_validate]
      · simp only [valAllow, hq, ↓reduceIte, allow_accepts, sect_eq_nil, firstOf_cons_eq_nil, firstOf_nil,
          pos_eq_nil, and_true, true_and]
        by_cases hb : c.alType = "backend" ∨ c.alType = "consul" <;> simp [hb]
    have eq : sect c.pQuic .rlQuic [ posInt false .rlQuicMax c.quicMax ] = [] ↔
        ratelimitQUICConfig_validate (genQuic c) = some none := by
      unfold genQuic; cases hq : c.pQuic
      · simp [ratelimitQUICConfig_validate]
      · simp [quic_accepts]
    have et : sect c.pTcp .rlTcp [ posInt false .rlTcpMax c.tcpMax ] = [] ↔
        ratelimitTCPConfig_validate (genTcp c) = some none := by
      unfold genTcp; cases hq : c.pTcp
      · simp [ratelimitTCPConfig_validate]
      · simp [tcp_accepts]; omega
    unfold valRatelimit; rw [hp]
    simp only [show ∀ l, sect true F.rl l = firstOf l from fun _ => rfl, firstOf_cons_eq_nil, firstOf_nil, and_true]
    rw [ea, ec, eq, et]
    simp only [posInt_false, pos_eq_nil]
    constructor
    · rintro ⟨a1, a2, a3, a4, a5, a6, a7, a8, a9, a10, a11, a12⟩
      have t4 := e4.mp ⟨a3, a4⟩; have t6 := e6.mp ⟨a5, a6⟩
      exact ⟨a1, a2, t4.1, t4.2, t6.1, t6.2, a7, a8, by omega, a10, a11, by omega⟩
    · rintro ⟨a1, a2, a3, a4, a5, a6, a7, a8, a9, a10, a11, a12⟩
      have t4 := e4.mpr ⟨a3, a4⟩; have t6 := e6.mpr ⟨a5, a6⟩
      exact ⟨a1, a2, t4.1, t4.2, t6.1, t6.2, a7, a8, by omega, a10, a11, by omega⟩

example : rateLimitConfig_validate (genRl dist true) = some none := by decide
example : rateLimitConfig_validate (genRl { dist with v6Len := 129 } true) ≠ some none := by decide


/-! ## `cache` and `cache.ttl_override` -/

def genTtl (c : Config) : Option S_cmd_ttlOverride :=
  if c.pTtl then some { Min := ⟨c.ttlMin⟩, Enabled := c.ttlEnabled } else none

def genCache (c : Config) : Option S_cmd_cacheConfig :=
  if c.pCa then some { TTLOverride := genTtl c, Type' := c.caType, Size := c.caSize, ECSSize := c.caEcs } else none

theorem ttl_total (x : Option S_cmd_ttlOverride) : ttlOverride_validate x ≠ none := by
  cases x with
  | none => simp [ttlOverride_validate]
  | some s => unfold ttlOverride_validate; tr_norm; repeat' split
              all_goals simp

/-- Accepted ⇔ `0 < min` (checked whether or not the override is enabled). -/
theorem ttl_accepts (s : S_cmd_ttlOverride) : ttlOverride_validate (some s) = some none ↔ 0 < s.Min.Duration := by
  unfold ttlOverride_validate; tr_norm
  repeat' split
  all_goals simp_all
  tr_close

theorem cache_total (x : Option S_cmd_cacheConfig) : cacheConfig_validate x ≠ none := by
  cases x with
  | none => simp [cacheConfig_validate]
  | some s =>
    have ht := ttl_total s.TTLOverride
    unfold cacheConfig_validate; tr_norm
    repeat' split
    all_goals simp_all

/-- Accepted ⇔ known type, `0 ≤ size`, `0 < ecs_size` when the type is `ecs`, and the TTL override is
present with `0 < min`. -/
theorem cache_accepts (s : S_cmd_cacheConfig) : cacheConfig_validate (some s) = some none ↔
    ((s.Type' = "simple" ∨ s.Type' = "ecs") ∧ 0 ≤ s.Size ∧ (s.Type' = "ecs" → 0 < s.ECSSize) ∧
      ∃ t, s.TTLOverride = some t ∧ 0 < t.Min.Duration) := by
  have ht := ttl_total s.TTLOverride
  have hs : ttlOverride_validate s.TTLOverride = some none ↔ ∃ t, s.TTLOverride = some t ∧ 0 < t.Min.Duration := by
    cases h : s.TTLOverride with
    | none => simp [ttlOverride_validate]
    | some t => simp [ttl_accepts]
  rw [← hs]
  unfold cacheConfig_validate; tr_norm
  repeat' split
  all_goals simp_all
  tr_close

/-- The model's `valCache` (repaired tree) accepts exactly when the translated `cacheConfig.validate` does. -/
theorem cache_tr (c : Config) : valCache false c = [] ↔ cacheConfig_validate (genCache c) = some none := by
  unfold genCache
  cases hp : c.pCa
  · simp [valCache, hp, cacheConfig_validate]
  · simp only [↓reduceIte, cache_accepts, genTtl]
    cases hq : c.pTtl <;> by_cases h1 : c.caType = "simple" <;> by_cases h2 : c.caType = "ecs" <;>
      simp_all [valCache]

example : cacheConfig_validate (genCache dist) = some none := by decide
example : cacheConfig_validate (genCache { dist with caType := "ecs", caEcs := 0 }) ≠ some none := by decide

/-! ## `dns`, `dnsdb`, `geoip`, `query_log`, `access`, `backend`, `network` -/

def genDns (c : Config) : Option S_cmd_dnsConfig :=
  if c.pDns then some { ReadTimeout := ⟨c.dnsRead⟩, TCPIdleTimeout := ⟨c.dnsIdle⟩, WriteTimeout := ⟨c.dnsWrite⟩,
                        HandleTimeout := ⟨c.dnsHandle⟩, MaxUDPResponseSize := c.dnsUdp } else none

theorem dns_total (x : Option S_cmd_dnsConfig) : dnsConfig_validate x ≠ none := by
  cases x with
  | none => simp [dnsConfig_validate]
  | some s => unfold dnsConfig_validate; tr_norm; repeat' split
              all_goals simp

/-- Accepted ⇔ the four timeouts are positive, the idle timeout is at most `dnsserver.MaxTCPIdleTimeout`
and `0 ≠ max_udp_response_size ≤ 65535`. -/
theorem dns_accepts (s : S_cmd_dnsConfig) : dnsConfig_validate (some s) = some none ↔
    (0 < s.ReadTimeout.Duration ∧ 0 < s.TCPIdleTimeout.Duration ∧ s.TCPIdleTimeout.Duration ≤ 6553500000000 ∧
     0 < s.WriteTimeout.Duration ∧ 0 < s.HandleTimeout.Duration ∧
     s.MaxUDPResponseSize ≠ 0 ∧ s.MaxUDPResponseSize ≤ 65535) := by
  unfold dnsConfig_validate; tr_norm
  repeat' split
  all_goals simp_all
  tr_close

theorem dns_tr (c : Config) (h0 : 0 ≤ c.dnsUdp) : valDns c = [] ↔ dnsConfig_validate (genDns c) = some none := by
  unfold genDns
  cases hp : c.pDns
  · simp [valDns, hp, dnsConfig_validate]
  · simp only [↓reduceIte, dns_accepts]
    simp [valDns, hp, maxIdle, maxMsg]
    omega

example : dnsConfig_validate (genDns dist) = some none := by decide

def genDb (c : Config) : Option S_cmd_dnsDBConfig :=
  if c.pDb then some { MaxSize := c.dbMax, Enabled := c.dbEnabled } else none

theorem dnsdb_total (x : Option S_cmd_dnsDBConfig) : dnsDBConfig_validate x ≠ none := by
  cases x with
  | none => simp [dnsDBConfig_validate]
  | some s => unfold dnsDBConfig_validate; tr_norm; repeat' split
              all_goals simp

theorem dnsdb_accepts (s : S_cmd_dnsDBConfig) : dnsDBConfig_validate (some s) = some none ↔
    (s.Enabled = true → 0 < s.MaxSize) := by
  unfold dnsDBConfig_validate; tr_norm
  repeat' split
  all_goals simp_all
  tr_close

theorem dnsdb_tr (c : Config) : valDnsdb c = [] ↔ dnsDBConfig_validate (genDb c) = some none := by
  unfold genDb
  cases hp : c.pDb
  · simp [valDnsdb, hp, dnsDBConfig_validate]
  · simp only [↓reduceIte, dnsdb_accepts]
    cases he : c.dbEnabled <;> simp [valDnsdb, hp, he]

def genGeo (c : Config) : Option S_cmd_geoIPConfig :=
  if c.pGeo then some { HostCacheSize := c.geoHost, IPCacheSize := c.geoIp, RefreshIvl := ⟨c.geoRefresh⟩ } else none

theorem geo_total (x : Option S_cmd_geoIPConfig) : geoIPConfig_validate x ≠ none := by
  cases x with
  | none => simp [geoIPConfig_validate]
  | some s => unfold geoIPConfig_validate; tr_norm; repeat' split
              all_goals simp

theorem geo_accepts (s : S_cmd_geoIPConfig) : geoIPConfig_validate (some s) = some none ↔
    (0 < s.HostCacheSize ∧ 0 < s.IPCacheSize ∧ 0 < s.RefreshIvl.Duration) := by
  unfold geoIPConfig_validate; tr_norm
  repeat' split
  all_goals simp_all
  tr_close

theorem geo_tr (c : Config) : valGeo c = [] ↔ geoIPConfig_validate (genGeo c) = some none := by
  unfold genGeo
  cases hp : c.pGeo
  · simp [valGeo, hp, geoIPConfig_validate]
  · simp only [↓reduceIte, geo_accepts]; simp [valGeo, hp]

def genQl (c : Config) (fileEnabled : Bool) : Option S_cmd_queryLogConfig :=
  if c.pQl then some { File := if c.pQlFile then some ⟨fileEnabled⟩ else none } else none

theorem queryLog_total (x : Option S_cmd_queryLogConfig) : queryLogConfig_validate x ≠ none := by
  cases x with
  | none => simp [queryLogConfig_validate]
  | some s => unfold queryLogConfig_validate; tr_norm; repeat' split
              all_goals simp

theorem queryLog_accepts (s : S_cmd_queryLogConfig) :
    queryLogConfig_validate (some s) = some none ↔ s.File ≠ none := by
  unfold queryLogConfig_validate; tr_norm
  repeat' split
  all_goals simp_all

theorem queryLog_tr (c : Config) (e : Bool) :
    valQueryLog c = [] ↔ queryLogConfig_validate (genQl c e) = some none := by
  unfold genQl
  cases hp : c.pQl
  · simp [valQueryLog, hp, queryLogConfig_validate]
  · simp only [↓reduceIte, queryLog_accepts]
    cases hq : c.pQlFile <;> simp [valQueryLog, hp, hq]

/-- `accessConfig.validate` has no partial operation: it only reports a missing section
(whatever the section holds: `a` is any value of the translated structure). -/
theorem access_tr (c : Config) (a : S_cmd_accessConfig) :
    valAccess c = [] ↔ accessConfig_validate (if c.pAc then some a else none) = none := by
  cases hp : c.pAc <;> simp [valAccess, hp, accessConfig_validate]

def genBe (c : Config) : Option S_cmd_backendConfig :=
  if c.pBe then some { Timeout := ⟨c.beTimeout⟩, RefreshIvl := ⟨c.beRefresh⟩, FullRefreshIvl := ⟨c.beFull⟩,
                       FullRefreshRetryIvl := ⟨c.beRetry⟩, BillStatIvl := ⟨c.beBill⟩ } else none

theorem backend_total (x : Option S_cmd_backendConfig) : backendConfig_validate x ≠ none := by
  cases x with
  | none => simp [backendConfig_validate]
  | some s => unfold backendConfig_validate; tr_norm; repeat' split
              all_goals simp

theorem backend_accepts (s : S_cmd_backendConfig) : backendConfig_validate (some s) = some none ↔
    (0 ≤ s.Timeout.Duration ∧ 0 < s.RefreshIvl.Duration ∧ 0 < s.FullRefreshIvl.Duration ∧
     0 < s.FullRefreshRetryIvl.Duration ∧ 0 < s.BillStatIvl.Duration) := by
  unfold backendConfig_validate; tr_norm
  repeat' split
  all_goals simp_all
  tr_close

theorem backend_tr (c : Config) : valBackend c = [] ↔ backendConfig_validate (genBe c) = some none := by
  unfold genBe
  cases hp : c.pBe
  · simp [valBackend, hp, backendConfig_validate]
  · simp only [↓reduceIte, backend_accepts]; simp [valBackend, hp]

def genNw (c : Config) : Option S_cmd_network :=
  if c.pNw then some { SndBufSize := c.nwSnd, RcvBufSize := c.nwRcv } else none

theorem network_total (x : Option S_cmd_network) : network_validate x ≠ none := by
  cases x with
  | none => simp [network_validate]
  | some s => unfold network_validate; tr_norm; repeat' split
              all_goals simp

theorem network_accepts (s : S_cmd_network) : network_validate (some s) = some none ↔
    (s.SndBufSize ≤ 2147483647 ∧ s.RcvBufSize ≤ 2147483647) := by
  unfold network_validate; tr_norm
  repeat' split
  all_goals simp_all
  tr_close

theorem network_tr (c : Config) : valNetwork c = [] ↔ network_validate (genNw c) = some none := by
  unfold genNw
  cases hp : c.pNw
  · simp [valNetwork, hp, network_validate]
  · simp only [↓reduceIte, network_accepts]; simp [valNetwork, hp, maxBuf]


/-! ## `upstream.healthcheck`, upstream servers -/

def genHc (c : Config) : Option S_cmd_upstreamHealthcheckConfig :=
  if c.pHc then some { DomainTmpl := c.hcTmpl, Interval := ⟨c.hcIvl⟩, Timeout := ⟨c.hcTimeout⟩,
                       BackoffDuration := ⟨c.hcBackoff⟩, Enabled := c.hcEnabled } else none

theorem healthcheck_total (x : Option S_cmd_upstreamHealthcheckConfig) (vt : Option String) :
    upstreamHealthcheckConfig_validate x vt ≠ none := by
  cases x with
  | none => simp [upstreamHealthcheckConfig_validate]
  | some s => unfold upstreamHealthcheckConfig_validate; tr_norm; repeat' split
              all_goals simp

/-- Accepted ⇔ disabled, or a non-empty domain template, three positive durations and (since the C17
repair) a template from which `forward.ValidateHealthcheckDomainTmpl` (`vt`, its result) can make a valid
probe name. -/
theorem healthcheck_accepts (s : S_cmd_upstreamHealthcheckConfig) (vt : Option String) :
    upstreamHealthcheckConfig_validate (some s) vt = some none ↔
      (s.Enabled = true → s.DomainTmpl ≠ "" ∧ 0 < s.Interval.Duration ∧ 0 < s.Timeout.Duration ∧
        0 < s.BackoffDuration.Duration ∧ vt = none) := by
  unfold upstreamHealthcheckConfig_validate; tr_norm
  cases vt <;> repeat' split
  all_goals simp_all
  all_goals tr_close

/-- Whenever the model's `valUpstream` accepts (and the template validator does), the translated
health-check validator accepts. -/
theorem healthcheck_tr (c : Config) (h : valUpstream c = []) :
    upstreamHealthcheckConfig_validate (genHc c) none = some none := by
  unfold genHc
  simp only [valUpstream, sect_eq_nil, firstOf_cons_eq_nil, firstOf_nil, and_true] at h
  obtain ⟨_, _, _, _, _, hp, hh⟩ := h
  simp only [hp, ↓reduceIte, healthcheck_accepts]
  intro he; simp [he] at hh; simpa using hh

/-- The health-check part of the model (the last element of `valUpstream`) is exactly the translated validator
(for a template the probe-name validator accepts). -/
theorem healthcheck_tr_iff (c : Config) :
    sect c.pHc .upHc
        [ if c.hcEnabled then
            firstOf [ (if c.hcTmpl = "" then [(.upHcTmpl, .empty)] else []),
                      pos .upHcIvl c.hcIvl, pos .upHcTimeout c.hcTimeout, pos .upHcBackoff c.hcBackoff ]
          else [] ] = [] ↔
      upstreamHealthcheckConfig_validate (genHc c) none = some none := by
  unfold genHc
  cases hp : c.pHc
  · simp [upstreamHealthcheckConfig_validate]
  · simp only [↓reduceIte, healthcheck_accepts]
    cases he : c.hcEnabled <;> simp

/-- One upstream server: whatever `splitUpstreamURL` returns, accepted ⇔ `0 < timeout` and the address
was parsed without error; the timeout is checked first. -/
theorem upstreamServer_accepts (s : S_cmd_upstreamServerConfig) (o : String × Unit × Option String) :
    upstreamServerConfig_validate (some s) o = some none ↔ (0 < s.Timeout.Duration ∧ o.2.2 = none) := by
  unfold upstreamServerConfig_validate; tr_norm
  repeat' split
  all_goals simp_all
  tr_close

theorem upstreamServer_total (x : Option S_cmd_upstreamServerConfig) (o : String × Unit × Option String) :
    upstreamServerConfig_validate x o ≠ none := by
  cases x with
  | none => simp [upstreamServerConfig_validate]
  | some s => unfold upstreamServerConfig_validate; tr_norm; repeat' split
              all_goals simp

/-- The model's per-server timeout check is the translated validator on a parsable address. -/
theorem upstreamServer_tr (f : F) (addr n : String) (t : Int) :
    pos f t = [] ↔ upstreamServerConfig_validate (some ⟨addr, ⟨t⟩⟩) (n, (), none) = some none := by
  simp [upstreamServer_accepts]

/-! ## `filters` and `filters.rule_list_cache` -/

def genRlc (c : Config) : Option S_cmd_fltRuleListCache :=
  if c.pRlc then some { Size := c.rlcSize, Enabled := c.rlcEnabled } else none

def genFilters (c : Config) : Option S_cmd_filtersConfig :=
  if c.pFl then some
    { RuleListCache := genRlc c, CustomFilterCacheSize := c.flCustom, SafeSearchCacheSize := c.flSafe,
      ResponseTTL := ⟨c.flRespTtl⟩, RefreshIvl := ⟨c.flRefresh⟩, RefreshTimeout := ⟨c.flRefreshTo⟩,
      IndexRefreshTimeout := ⟨c.flIndexTo⟩, RuleListRefreshTimeout := ⟨c.flRuleTo⟩, MaxSize := c.flMax,
      EDEEnabled := c.flEde, SDEEnabled := c.flSde }
  else none

theorem rlc_total (x : Option S_cmd_fltRuleListCache) : fltRuleListCache_validate x ≠ none := by
  cases x with
  | none => simp [fltRuleListCache_validate]
  | some s => unfold fltRuleListCache_validate; tr_norm; repeat' split
              all_goals simp

/-- Accepted ⇔ `0 < size` (checked whether or not the cache is enabled). -/
theorem rlc_accepts (s : S_cmd_fltRuleListCache) : fltRuleListCache_validate (some s) = some none ↔ 0 < s.Size := by
  unfold fltRuleListCache_validate; tr_norm
  repeat' split
  all_goals simp_all
  tr_close

theorem filters_total (x : Option S_cmd_filtersConfig) : filtersConfig_validate x ≠ none := by
  cases x with
  | none => simp [filtersConfig_validate]
  | some s =>
    cases hr : fltRuleListCache_validate s.RuleListCache with
    | none => exact absurd hr (rlc_total _)
    | some r =>
      unfold filtersConfig_validate; tr_norm
      rw [hr]
      cases he : s.EDEEnabled <;> cases hs : s.SDEEnabled <;> cases r <;> exact Option.some_ne_none _

/-- Accepted ⇔ the two cache sizes and five durations are positive, `max_size ≠ 0`, `sde` is not enabled
without `ede`, and the rule-list cache section is accepted. -/
theorem filters_accepts (s : S_cmd_filtersConfig) : filtersConfig_validate (some s) = some none ↔
    (0 < s.CustomFilterCacheSize ∧ 0 < s.SafeSearchCacheSize ∧ 0 < s.ResponseTTL.Duration ∧
     0 < s.RefreshIvl.Duration ∧ 0 < s.RefreshTimeout.Duration ∧ 0 < s.IndexRefreshTimeout.Duration ∧
     0 < s.RuleListRefreshTimeout.Duration ∧ s.MaxSize ≠ 0 ∧ ¬ (s.EDEEnabled = false ∧ s.SDEEnabled = true) ∧
     fltRuleListCache_validate s.RuleListCache = some none) := by
  cases hr : fltRuleListCache_validate s.RuleListCache with
  | none => exact absurd hr (rlc_total _)
  | some r =>
    unfold filtersConfig_validate; tr_norm
    rw [hr]
    cases he : s.EDEEnabled <;> cases hs : s.SDEEnabled <;> cases r <;>
      simp only [Bool.not_true, Bool.not_false, ↓reduceIte, Option.isSome_some, Option.isSome_none,
        Bool.false_eq_true, List.cons_append, List.nil_append, Option.some.injEq, firstErr_cons_eq_none,
        firstErr_nil, posErr_eq_none, reduceCtorEq, and_true, and_false, and_self,
        not_true_eq_false, not_false_eq_true, ne_eq, Int.not_le]

theorem filters_tr (c : Config) (h0 : 0 ≤ c.flMax) :
    valFilters false c = [] ↔ filtersConfig_validate (genFilters c) = some none := by
  unfold genFilters
  cases hp : c.pFl
  · simp [valFilters, hp, filtersConfig_validate]
  · simp only [↓reduceIte, filters_accepts, genRlc]
    cases hq : c.pRlc
    · simp [valFilters, hp, hq, fltRuleListCache_validate]
    · simp only [↓reduceIte, rlc_accepts]
      cases he : c.flEde <;> cases hs : c.flSde <;> simp [valFilters, hp, hq, he, hs] <;> omega

example : filtersConfig_validate (genFilters dist) = some none := by decide
example : filtersConfig_validate (genFilters { dist with flEde := false }) ≠ some none := by decide

/-! ## `safe_browsing` / `adult_blocking` -/

def genSb (p : Bool) (host : String) (size ttl refresh timeout : Int) : Option S_cmd_safeBrowsingConfig :=
  if p then some { BlockHost := host, CacheSize := size, CacheTTL := ⟨ttl⟩, RefreshIvl := ⟨refresh⟩,
                   RefreshTimeout := ⟨timeout⟩ } else none

theorem safeBrowsing_total (x : Option S_cmd_safeBrowsingConfig) : safeBrowsingConfig_validate x ≠ none := by
  cases x with
  | none => simp [safeBrowsingConfig_validate]
  | some s => unfold safeBrowsingConfig_validate; tr_norm; repeat' split
              all_goals simp

theorem safeBrowsing_accepts (s : S_cmd_safeBrowsingConfig) : safeBrowsingConfig_validate (some s) = some none ↔
    (s.BlockHost ≠ "" ∧ 0 < s.CacheSize ∧ 0 < s.CacheTTL.Duration ∧ 0 < s.RefreshIvl.Duration ∧
     0 < s.RefreshTimeout.Duration) := by
  unfold safeBrowsingConfig_validate; tr_norm
  repeat' split
  all_goals simp_all
  tr_close

/-- The model's `valSb` (used for both `safe_browsing` and `adult_blocking`) is the translated validator
on a section whose block host is set (the model does not vary the host). -/
theorem safeBrowsing_tr (p : Bool) (s fs ft fr fo : F) (host : String) (size ttl refresh timeout : Int)
    (hh : host ≠ "") :
    valSb p s fs ft fr fo size ttl refresh timeout = [] ↔
      safeBrowsingConfig_validate (genSb p host size ttl refresh timeout) = some none := by
  unfold genSb
  cases p
  · simp [valSb, safeBrowsingConfig_validate]
  · simp only [↓reduceIte, safeBrowsing_accepts]; simp [valSb, hh]

/-! ## `check.kv`, DDR ports, interface listeners, `web` -/

def genKv (c : Config) : Option S_cmd_remoteKVConfig :=
  if c.pKv then some { Type' := c.kvType, TTL := ⟨c.kvTtl⟩ } else none

theorem kv_total (x : Option S_cmd_remoteKVConfig) : remoteKVConfig_validate x ≠ none := by
  cases x with
  | none => simp [remoteKVConfig_validate]
  | some s => unfold remoteKVConfig_validate; tr_norm; repeat' split
              all_goals simp

/-- Accepted ⇔ one of the four types with its own TTL range. -/
theorem kv_accepts (s : S_cmd_remoteKVConfig) : remoteKVConfig_validate (some s) = some none ↔
    ((s.Type' = "backend" ∧ 0 < s.TTL.Duration) ∨ s.Type' = "cache" ∨
     (s.Type' = "consul" ∧ 10000000000 ≤ s.TTL.Duration ∧ s.TTL.Duration ≤ 86400000000000) ∨
     (s.Type' = "redis" ∧ 1000000 ≤ s.TTL.Duration)) := by
  unfold remoteKVConfig_validate; tr_norm
  repeat' split
  all_goals simp_all
  tr_close

theorem kv_tr (c : Config) : valKv c = [] ↔ remoteKVConfig_validate (genKv c) = some none := by
  unfold genKv
  rw [valKv_eq_nil]
  cases hp : c.pKv
  · simp [remoteKVConfig_validate]
  · simp only [↓reduceIte, kv_accepts]; simp [consulMin, consulMax, redisMin]

/-- `ddrRecord.validatePorts` does not check its receiver ("r must be otherwise valid"): nil panics. -/
theorem ports_nil : ddrRecord_validatePorts none = none := by decide

theorem ports_total (s : S_cmd_ddrRecord) : ddrRecord_validatePorts (some s) ≠ none := by
  unfold ddrRecord_validatePorts; tr_norm; repeat' split
  all_goals simp

theorem ports_accepts (s : S_cmd_ddrRecord) : ddrRecord_validatePorts (some s) = some none ↔
    (¬ (s.HTTPSPort ≠ 0 ∧ s.HTTPSPort = s.TLSPort) ∧ ¬ (s.HTTPSPort = 0 ∧ s.QUICPort = 0 ∧ s.TLSPort = 0)) := by
  unfold ddrRecord_validatePorts; tr_norm
  repeat' split
  all_goals simp_all
  tr_close

theorem ports_tr (a b : F) (path : String) (https quic tls : Int) :
    valPorts a b https quic tls = [] ↔ ddrRecord_validatePorts (some ⟨path, https, quic, tls⟩) = some none := by
  rw [ports_accepts, valPorts_eq_nil]

theorem ifaceListener_total (x : Option S_cmd_interfaceListener) : interfaceListener_validate x ≠ none := by
  cases x with
  | none => simp [interfaceListener_validate]
  | some s => unfold interfaceListener_validate; tr_norm; repeat' split
              all_goals simp

theorem ifaceListener_accepts (s : S_cmd_interfaceListener) :
    interfaceListener_validate (some s) = some none ↔ (s.Port ≠ 0 ∧ s.Interface ≠ "") := by
  unfold interfaceListener_validate; tr_norm
  repeat' split
  all_goals simp_all

/-- The model's port check of one listener is the translated validator on a named interface. -/
theorem ifaceListener_tr (f : F) (iface : String) (port : Int) (hi : iface ≠ "") :
    (if port = 0 then [(f, Kind.empty)] else []) = [] ↔
      interfaceListener_validate (some ⟨iface, port⟩) = some none := by
  rw [ifaceListener_accepts]; simp [hi]

/-- `web`: a missing section is accepted; otherwise the timeout is checked before any sub-section and
the section is accepted ⇔ `0 < timeout` and the six sub-validators (opaque here) all accept. -/
theorem web_accepts (x : Option S_cmd_webConfig) (o1 o2 o3 o4 o5 o6 : Option String) :
    webConfig_validate x o1 o2 o3 o4 o5 o6 = some none ↔
      ∀ s, x = some s → (0 < s.Timeout.Duration ∧ o1 = none ∧ o2 = none ∧ o3 = none ∧ o4 = none ∧
        o5 = none ∧ o6 = none) := by
  cases x with
  | none => simp [webConfig_validate]
  | some s =>
    unfold webConfig_validate; tr_norm
    repeat' split
    all_goals simp_all
    tr_close

theorem web_total (x : Option S_cmd_webConfig) (o1 o2 o3 o4 o5 o6 : Option String) :
    webConfig_validate x o1 o2 o3 o4 o5 o6 ≠ none := by
  cases x with
  | none => simp [webConfig_validate]
  | some s => unfold webConfig_validate; tr_norm; repeat' split
              all_goals simp

/-- A non-positive timeout is reported whatever the sub-sections hold. -/
theorem web_timeout_first (s : S_cmd_webConfig) (o1 o2 o3 o4 o5 o6 : Option String) (h : s.Timeout.Duration ≤ 0) :
    webConfig_validate (some s) o1 o2 o3 o4 o5 o6 = some (some "newNotPositiveError(\"timeout\", c.Timeout)") := by
  unfold webConfig_validate; tr_norm; simp [h]

theorem web_tr (c : Config) (w : S_cmd_webConfig) (hw : w.Timeout = ⟨c.webTimeout⟩) :
    valWeb c = [] ↔ webConfig_validate (if c.pWeb then some w else none) none none none none none none = some none := by
  rw [web_accepts]
  cases hp : c.pWeb <;> simp [valWeb, hp, hw]


/-! ## Conversions to the internal configuration and the constructors they feed -/

/-- `connlimiter.New` never panics; it refuses exactly `stop = 0` or `resume > stop`, and otherwise the
limiter starts empty and accepting with the configured thresholds. -/
theorem limiter_new (cfg : S_connlimiter_Config) :
    connlimiter_New (some cfg) = some
      (if cfg.Stop = 0 ∨ cfg.Resume > cfg.Stop then (none, some "fmt.Errorf(\"bad limiter config: %+v\", c)")
       else (some ⟨some ⟨0, cfg.Stop, cfg.Resume, true⟩⟩, none)) := by
  unfold connlimiter_New; tr_norm
  by_cases h1 : cfg.Stop = 0 <;> by_cases h2 : cfg.Resume > cfg.Stop <;> simp [h1, h2]

theorem limiter_new_nil : connlimiter_New none = some (none, some "fmt.Errorf(\"bad limiter config: %+v\", c)") := by
  decide

/-- `connLimitConfig.toInternal` panics exactly when the limiter is enabled with `stop = 0` or
`resume > stop` — the condition of the model's `build` (`Panic.connLimiter`). -/
theorem connLimit_toInternal_panics_iff (s : S_cmd_connLimitConfig) :
    connLimitConfig_toInternal (some s) = none ↔ (s.Enabled = true ∧ (s.Stop = 0 ∨ s.Resume > s.Stop)) := by
  unfold connLimitConfig_toInternal; tr_norm
  rw [limiter_new]; tr_norm
  cases he : s.Enabled <;> by_cases h1 : s.Stop = 0 <;> by_cases h2 : s.Resume > s.Stop <;> simp [h1, h2]

/-- An accepted `connection_limit` section never makes `toInternal` panic: no limiter when disabled,
otherwise a limiter with the configured thresholds. -/
theorem connLimit_toInternal_ok (s : S_cmd_connLimitConfig) (h0 : 0 ≤ s.Stop) (h1 : 0 ≤ s.Resume)
    (h : connLimitConfig_validate (some s) = some none) :
    connLimitConfig_toInternal (some s) =
      some (if s.Enabled then some ⟨some ⟨0, s.Stop, s.Resume, true⟩⟩ else none) := by
  rw [connLimit_accepts s h0 h1] at h
  unfold connLimitConfig_toInternal; tr_norm
  rw [limiter_new]; tr_norm
  cases he : s.Enabled
  · simp
  · have h1 : ¬ s.Stop = 0 := by simp [he] at h; omega
    have h2 : ¬ s.Resume > s.Stop := by simp [he] at h; omega
    simp [h1, h2]

/-- The same, on the model's configuration: `build` raises `Panic.connLimiter` exactly when the
translated conversion panics. -/
theorem connLimit_toInternal_build (c : Config) :
    connLimitConfig_toInternal (some ⟨c.clStop, c.clResume, c.clEnabled⟩) = none ↔
      (c.clEnabled = true ∧ (c.clStop = 0 ∨ c.clResume > c.clStop)) :=
  connLimit_toInternal_panics_iff _

/-- `cacheConfig.toInternal` dereferences `ttl_override` without a check: it panics exactly when the
section or its TTL override is missing … -/
theorem cache_toInternal_panics_iff (x : Option S_cmd_cacheConfig) :
    cacheConfig_toInternal x = none ↔ ∀ s, x = some s → s.TTLOverride = none := by
  cases x with
  | none => simp [cacheConfig_toInternal]
  | some s =>
    unfold cacheConfig_toInternal; tr_norm
    cases ht : s.TTLOverride <;> by_cases h1 : s.Size = 0 <;> by_cases h2 : s.Type' = "simple" <;> simp [h1, h2, ht]

def cacheTypeCode : CacheType → Int | .none => 1 | .simple => 2 | .ecs => 3

/-- What the conversion computes when the TTL override is there: every field goes where it belongs. -/
theorem cache_toInternal_eq (s : S_cmd_cacheConfig) (t : S_cmd_ttlOverride) (ht : s.TTLOverride = some t) :
    cacheConfig_toInternal (some s) = some (some
      { MinTTL := t.Min.Duration, ECSCount := s.ECSSize, NoECSCount := s.Size,
        Type' := if s.Size = 0 then 1 else if s.Type' = "simple" then 2 else 3,
        OverrideCacheTTL := t.Enabled }) := by
  unfold cacheConfig_toInternal; tr_norm; rw [ht]; tr_norm
  by_cases h1 : s.Size = 0 <;> by_cases h2 : s.Type' = "simple" <;> simp [h1, h2]

/-- … which validation excludes: an accepted section converts without panic, and a cache that will be
built (`simple` = 2, `ecs` = 3) gets positive sizes (`gcache.New` panics otherwise). -/
theorem cache_toInternal_ok (s : S_cmd_cacheConfig) (h : cacheConfig_validate (some s) = some none) :
    ∃ r, cacheConfig_toInternal (some s) = some (some r) ∧ 0 < r.MinTTL ∧
      r.ECSCount = s.ECSSize ∧ r.NoECSCount = s.Size ∧
      (r.Type' = 1 ↔ s.Size = 0) ∧ (r.Type' = 2 → 0 < r.NoECSCount) ∧
      (r.Type' = 3 → 0 < r.NoECSCount ∧ 0 < r.ECSCount) := by
  rw [cache_accepts] at h
  obtain ⟨hty, hsz, hecs, t, ht, hmin⟩ := h
  refine ⟨_, cache_toInternal_eq s t ht, hmin, rfl, rfl, ?_⟩
  by_cases h1 : s.Size = 0
  · simp [h1]
  · by_cases h2 : s.Type' = "simple"
    · simp [h1, h2]; omega
    · have h3 : s.Type' = "ecs" := by simpa [h2] using hty
      have := hecs h3
      simp [h1, h2]; omega

/-- The translated cache type is the model's `cacheType`. -/
theorem cache_toInternal_type (c : Config) (t : S_cmd_ttlOverride) (r : S_dnssvc_CacheConfig)
    (h : cacheConfig_toInternal (some ⟨some t, c.caType, c.caSize, c.caEcs⟩) = some (some r)) :
    r.Type' = cacheTypeCode (cacheType c) := by
  unfold cacheConfig_toInternal at h; revert h; tr_norm
  unfold cacheType
  by_cases h1 : c.caSize = 0 <;> by_cases h2 : c.caType = "simple" <;> simp [h1, h2, cacheTypeCode] <;>
    (intro h; rw [← h])

/-- `rateLimitConfig.toInternal` followed by `ratelimit.NewBackoff`: each field of the limiter comes from
the property of the section (and address family) it is documented to come from. -/
theorem rateLimit_toInternal_eq (s : S_cmd_rateLimitConfig) (v4 v6 : S_cmd_rateLimitOptions)
    (e4 : s.IPv4 = some v4) (e6 : s.IPv6 = some v6) :
    rateLimitConfig_toInternal (some s) = some (some
      { Period := s.BackoffPeriod.Duration, Duration := s.BackoffDuration.Duration, Count := s.BackoffCount,
        ResponseSizeEstimate := s.ResponseSizeEstimate,
        IPv4Count := v4.Count, IPv4Interval := v4.Interval.Duration, IPv4SubnetKeyLen := v4.SubnetKeyLen,
        IPv6Count := v6.Count, IPv6Interval := v6.Interval.Duration, IPv6SubnetKeyLen := v6.SubnetKeyLen,
        RefuseANY := s.RefuseANY }) := by
  unfold rateLimitConfig_toInternal; tr_norm; rw [e4, e6]; tr_norm

theorem newBackoff_eq (b : S_ratelimit_BackoffConfig) :
    ratelimit_NewBackoff (some b) = some (some
      { respSzEst := b.ResponseSizeEstimate, count := b.Count,
        ipv4Count := b.IPv4Count, ipv4Interval := b.IPv4Interval, ipv4SubnetKeyLen := b.IPv4SubnetKeyLen,
        ipv6Count := b.IPv6Count, ipv6Interval := b.IPv6Interval, ipv6SubnetKeyLen := b.IPv6SubnetKeyLen,
        refuseANY := b.RefuseANY }) := by
  unfold ratelimit_NewBackoff; tr_norm

/-- An accepted `ratelimit` section converts without panic, and the limiter that `NewBackoff` builds from
it holds: a non-zero response-size estimate (the divisor in `CountResponses`), non-zero window counts,
positive intervals and back-off times, key lengths within the address family. -/
theorem rateLimit_toInternal_ok (s : S_cmd_rateLimitConfig) (h : rateLimitConfig_validate (some s) = some none) :
    ∃ b l, rateLimitConfig_toInternal (some s) = some (some b) ∧ ratelimit_NewBackoff (some b) = some (some l) ∧
      0 < b.Period ∧ 0 < b.Duration ∧ l.respSzEst ≠ 0 ∧ l.count ≠ 0 ∧
      l.ipv4Count ≠ 0 ∧ 0 < l.ipv4Interval ∧ 0 < l.ipv4SubnetKeyLen ∧ l.ipv4SubnetKeyLen ≤ 32 ∧
      l.ipv6Count ≠ 0 ∧ 0 < l.ipv6Interval ∧ 0 < l.ipv6SubnetKeyLen ∧ l.ipv6SubnetKeyLen ≤ 128 := by
  rw [rateLimit_accepts] at h
  obtain ⟨_, _, h4, k4, h6, k6, _, _, hc, hd, hp, he⟩ := h
  cases e4 : s.IPv4 with
  | none => rw [e4] at h4; simp [rateLimitOptions_validate] at h4
  | some v4 =>
  cases e6 : s.IPv6 with
  | none => rw [e6] at h6; simp [rateLimitOptions_validate] at h6
  | some v6 =>
  rw [e4, opts_accepts] at h4; rw [e6, opts_accepts] at h6
  rw [e4, keyLen_accepts] at k4; rw [e6, keyLen_accepts] at k6
  have k4 := k4 v4 rfl; have k6 := k6 v6 rfl
  refine ⟨_, _, rateLimit_toInternal_eq s v4 v6 e4 e6, newBackoff_eq _, ?_⟩
  simp only []
  omega

/-- Both conversions panic on a nil section (their contract is "c must be valid"). -/
theorem toInternal_nil : rateLimitConfig_toInternal none = none ∧ connLimitConfig_toInternal none = none ∧
    cacheConfig_toInternal none = none ∧ network_toInternal none = none := by decide

/-- `network.toInternal`: both control configurations receive the send size as send size and the receive
size as receive size; for an accepted section the values fit `int32`. -/
theorem network_toInternal_ok (s : S_cmd_network) :
    network_toInternal (some s) =
      some (some ⟨s.RcvBufSize, s.SndBufSize⟩, some ⟨s.RcvBufSize, s.SndBufSize⟩) := by
  unfold network_toInternal; tr_norm

example : (cacheConfig_toInternal (genCache dist)).isSome = true := by decide
example : cacheConfig_toInternal (genCache { dist with pTtl := false }) = none := by decide


/-! ## The per-query consumer of the key lengths -/

/-- `Backoff.subnetKey` asks `netip.Addr.Prefix` for exactly one prefix, of the length configured for
the client's address family (`ip.Is4()` decides), whatever the opaque calls return … -/
theorem subnetKey_prefix_len (l : S_ratelimit_Backoff) (is4 : Bool) (p4 p6 : Unit × Option String) (k : String)
    (r : String × List (String × List String)) (h : Backoff_subnetKey l is4 p4 k p6 = some r) :
    r = (k, [("Prefix", [toString (if is4 then l.ipv4SubnetKeyLen else l.ipv6SubnetKeyLen)])]) := by
  unfold Backoff_subnetKey at h
  cases is4 <;> simp only [Bool.false_eq_true, ↓reduceIte, List.nil_append] at h ⊢ <;>
    split at h <;> first | exact (Option.some.inj h).symm | exact absurd h (by simp)

/-- … and it panics exactly when that call reports an error (`netip` does so iff the length does not
fit the family — which `rateLimit_toInternal_ok` excludes for an accepted configuration). -/
theorem subnetKey_panics_iff (l : S_ratelimit_Backoff) (is4 : Bool) (p4 p6 : Unit × Option String) (k : String) :
    Backoff_subnetKey l is4 p4 k p6 = none ↔ (if is4 then p4.2 else p6.2) ≠ none := by
  unfold Backoff_subnetKey
  cases is4 <;> simp only [Bool.false_eq_true, ↓reduceIte] <;> split <;>
    simp_all [Option.isSome_iff_ne_none]

/-! ## Reporting -/

/-- A missing section is reported as `no value` by every section validator instead of dereferencing nil
(`web` is optional: a missing section is accepted). -/
theorem missing_reported :
    connLimitConfig_validate none = some (some "no value") ∧ ttlOverride_validate none = some (some "no value") ∧
    cacheConfig_validate none = some (some "no value") ∧ rateLimitOptions_validate none = some (some "no value") ∧
    ratelimitTCPConfig_validate none = some (some "no value") ∧
    ratelimitQUICConfig_validate none = some (some "no value") ∧
    allowListConfig_validate none = some (some "no value") ∧ rateLimitConfig_validate none = some (some "no value") ∧
    dnsConfig_validate none = some (some "no value") ∧ dnsDBConfig_validate none = some (some "no value") ∧
    upstreamHealthcheckConfig_validate none none = some (some "no value") ∧
    fltRuleListCache_validate none = some (some "no value") ∧ filtersConfig_validate none = some (some "no value") ∧
    queryLogConfig_validate none = some (some "no value") ∧ geoIPConfig_validate none = some (some "no value") ∧
    accessConfig_validate none = some "no value" ∧ safeBrowsingConfig_validate none = some (some "no value") ∧
    backendConfig_validate none = some (some "no value") ∧ remoteKVConfig_validate none = some (some "no value") ∧
    network_validate none = some (some "no value") ∧ interfaceListener_validate none = some (some "no value") ∧
    (∀ o, upstreamServerConfig_validate none o = some (some "no value")) ∧
    (∀ o1 o2 o3 o4 o5 o6, webConfig_validate none o1 o2 o3 o4 o5 o6 = some none) := by
  refine ⟨rfl, rfl, rfl, rfl, rfl, rfl, rfl, rfl, rfl, rfl, rfl, rfl, rfl, rfl, rfl, rfl, rfl, rfl, rfl, rfl, rfl, ?_, ?_⟩
  · intro o; rfl
  · intros; rfl

/-- The error of a `ratelimit` sub-section is reported under the name of that sub-section, in the order of
the configuration file: with `allowlist` and `connection_limit` accepted, whatever `ipv4` reports is
what the whole section reports, prefixed with `ipv4: ` (sections after it are not consulted for the text). -/
theorem rateLimit_names_ipv4 (s : S_cmd_rateLimitConfig) (e : String)
    (h1 : allowListConfig_validate s.Allowlist = some none)
    (h2 : connLimitConfig_validate s.ConnectionLimit = some none)
    (h3 : rateLimitOptions_validate s.IPv4 = some (some e)) :
    rateLimitConfig_validate (some s) = some (some ("ipv4" ++ ": " ++ e)) := by
  obtain ⟨a4, h4⟩ := Option.ne_none_iff_exists'.mp (keyLen_total s.IPv4 32)
  obtain ⟨a5, h5⟩ := Option.ne_none_iff_exists'.mp (opts_total s.IPv6)
  obtain ⟨a6, h6⟩ := Option.ne_none_iff_exists'.mp (keyLen_total s.IPv6 128)
  obtain ⟨a7, h7⟩ := Option.ne_none_iff_exists'.mp (quic_total s.QUIC)
  obtain ⟨a8, h8⟩ := Option.ne_none_iff_exists'.mp (tcp_total s.TCP)
  unfold rateLimitConfig_validate; tr_norm
  simp only [h1, h2, h3, h4, h5, h6, h7, h8]; tr_norm
  simp only [wrapErr, Option.map_none, Option.map_some, firstErr_none, firstErr_some]

/-! ## `serverGroups.streamAddrNum` and `configuration.validateConnLimit` (round 3c)

Translated with the slice types `[]netip.AddrPort` / `[]netip.Prefix` declared symbolic as `List Unit`
(known by their length only); the three nested range loops are `goRange?` folds. -/

/-- `n += uint64(k)` on a `uint64` counter, as a number below `2^64`. -/
theorem wrap_add (n k : Int) :
    goWrapU 18446744073709551616 (n + goWrapU 18446744073709551616 k) = (n + k) % 18446744073709551616 := by
  unfold goWrapU; omega

/-- Folding `n ↦ (n + cnt x) mod 2^64` adds the sum of the counts. -/
theorem fold_mod {α : Type} (cnt : α → Nat) :
    ∀ (xs : List α) (n : Int), 0 ≤ n → n < 18446744073709551616 →
      xs.foldl (fun n x => (n + (cnt x : Int)) % 18446744073709551616) n =
        (n + ((xs.map cnt).sum : Nat)) % 18446744073709551616
  | [], n, h0, h1 => by simp only [List.foldl_nil, List.map_nil, List.sum_nil]; omega
  | x :: xs, n, h0, h1 => by
    rw [List.foldl_cons, fold_mod cnt xs _ (by omega) (by omega)]
    simp only [List.map_cons, List.sum_cons]
    omega

/-- Stream addresses of one interface entry, one server, one group (nil pointers count as 0: they
are excluded by `NoNil` where it matters). -/
def ifaceN : Option S_cmd_serverBindInterface → Nat
  | some i => i.Subnets.length
  | none => 0
def serverN : Option S_cmd_server → Nat
  | some s => if s.Protocol = "quic" then 0 else s.BindAddresses.length + (s.BindInterfaces.map ifaceN).sum
  | none => 0
def groupN : Option S_cmd_serverGroup → Nat
  | some g => (g.Servers.map serverN).sum
  | none => 0
/-- The number `streamAddrNum` is documented to return. -/
def streamTotal (gs : List (Option S_cmd_serverGroup)) : Nat := (gs.map groupN).sum

/-- No nil pointer among the groups, their servers and the servers' interface entries (what
`serverGroups.validate` guarantees). -/
def NoNil (gs : List (Option S_cmd_serverGroup)) : Prop :=
  ∀ g ∈ gs, ∃ g', g = some g' ∧ ∀ s ∈ g'.Servers, ∃ s', s = some s' ∧ ∀ i ∈ s'.BindInterfaces, i ≠ none

/-- **`streamAddrNum` counts what its comment says**, for every list of groups without nil pointers:
the bind addresses plus the interface subnets of every server that is not DNS-over-QUIC, as a
`uint64` (i.e. modulo `2^64`); it does not panic. -/
theorem streamAddrNum_eq (gs : List (Option S_cmd_serverGroup)) (h : NoNil gs) :
    serverGroups_streamAddrNum gs = some ((streamTotal gs : Int) % 18446744073709551616) := by
  unfold serverGroups_streamAddrNum
  simp only [goRange?]
  rw [(goRangeFrom?_fold (fun n : Int => 0 ≤ n ∧ n < 18446744073709551616)
    (fun n g => (n + (groupN g : Int)) % 18446744073709551616) _ gs 0 0 ⟨by omega, by omega⟩ ?_).1]
  · simp only [fold_mod groupN gs 0 (by omega) (by omega), streamTotal, Int.zero_add]
  · intro n i g hg hn
    obtain ⟨g', rfl, hg'⟩ := h g hg
    simp only [Option.bind_some]
    rw [(goRangeFrom?_fold (fun n : Int => 0 ≤ n ∧ n < 18446744073709551616)
      (fun n s => (n + (serverN s : Int)) % 18446744073709551616) _ g'.Servers 0 n hn ?_).1]
    · simp only [fold_mod serverN g'.Servers n hn.1 hn.2, groupN]
      exact ⟨trivial, by omega⟩
    · intro n i s hs hn
      obtain ⟨s', rfl, hs'⟩ := hg' s hs
      simp only [Option.bind_some]
      by_cases hq : s'.Protocol = "quic"
      · simp only [hq, decide_true, if_true, serverN]
        exact ⟨by congr 2; omega, by omega⟩
      · simp only [hq, decide_false, Bool.false_eq_true, if_false, wrap_add]
        have hn1 : 0 ≤ (n + (s'.BindAddresses.length : Int)) % 18446744073709551616 ∧
            (n + (s'.BindAddresses.length : Int)) % 18446744073709551616 < 18446744073709551616 := by omega
        rw [(goRangeFrom?_fold (fun n : Int => 0 ≤ n ∧ n < 18446744073709551616)
          (fun n i => (n + (ifaceN i : Int)) % 18446744073709551616) _ s'.BindInterfaces 0 _ hn1 ?_).1]
        · simp only [fold_mod ifaceN s'.BindInterfaces _ hn1.1 hn1.2, serverN, hq, if_false]
          exact ⟨by congr 2; omega, by omega⟩
        · intro n i x hx hn
          cases x with
          | none => exact absurd rfl (hs' none hx)
          | some x' =>
            simp only [Option.bind_some, wrap_add, ifaceN]
            exact ⟨trivial, by omega⟩

/-- Below `2^64` addresses (every real configuration) the result is the count itself. -/
theorem streamAddrNum_exact (gs : List (Option S_cmd_serverGroup)) (h : NoNil gs)
    (hlt : (streamTotal gs : Int) < 18446744073709551616) :
    serverGroups_streamAddrNum gs = some (streamTotal gs : Int) := by
  rw [streamAddrNum_eq gs h, Int.emod_eq_of_lt (by omega) hlt]

/-- A nil group, or a nil server in a group, is dereferenced: a panic. -/
example : serverGroups_streamAddrNum [none] = none := by decide
example : serverGroups_streamAddrNum
    [some { DDR := none, TLS := none, Name := "g", FilteringGroup := "f", Servers := [none], ProfilesEnabled := false }] = none := by
  decide

/-- A server of the distributed configuration. -/
def genSrv (proto : String) (addrs : List Unit) (ifaces : List (Option S_cmd_serverBindInterface)) : Option S_cmd_server :=
  some { DNSCrypt := none, Name := "srv", Protocol := proto, BindAddresses := addrs, BindInterfaces := ifaces,
         LinkedIPEnabled := false }

/-- The server groups of the model's configuration space: one group; server 0 (plain DNS) bound to
two subnets of one interface listener, servers 1 and 2 on one address, server 3 on two, and the two
DNSCrypt servers on one address each. -/
def genGroups (c : Config) : List (Option S_cmd_serverGroup) :=
  [some { DDR := none, TLS := none, Name := "adguard_dns_default", FilteringGroup := c.sgFg, ProfilesEnabled := false,
          Servers := [genSrv "dns" [] [some { ID := c.bi0Id, Subnets := [(), ()] }],
                      genSrv c.proto1 [()] [], genSrv c.proto2 [()] [], genSrv c.proto3 [(), ()] [],
                      genSrv "dnscrypt" [()] [], genSrv "dnscrypt" [()] []] }]

theorem genGroups_noNil (c : Config) : NoNil (genGroups c) := by
  intro g hg
  simp only [genGroups, List.mem_singleton] at hg
  subst hg
  refine ⟨_, rfl, ?_⟩
  intro s hs
  simp only [List.mem_cons, List.not_mem_nil, or_false, genSrv] at hs
  rcases hs with rfl | rfl | rfl | rfl | rfl | rfl <;> refine ⟨_, rfl, ?_⟩ <;> simp

theorem streamTotal_gen (c : Config) : (streamTotal (genGroups c) : Int) = streamN c := by
  simp only [streamTotal, genGroups, genSrv, groupN, serverN, ifaceN, streamN, List.map_cons, List.map_nil,
    List.sum_cons, List.sum_nil, List.length_cons, List.length_nil]
  by_cases h1 : c.proto1 = "quic" <;> by_cases h2 : c.proto2 = "quic" <;> by_cases h3 : c.proto3 = "quic" <;>
    simp [h1, h2, h3]

theorem streamN_small (c : Config) : streamN c < 18446744073709551616 := by
  unfold streamN; split <;> split <;> split <;> omega

/-- **The model's `streamN` is the translated `streamAddrNum`** on the model's configurations (all
protocol names of servers 1–3). -/
theorem streamN_tr (c : Config) : serverGroups_streamAddrNum (genGroups c) = some (streamN c) := by
  rw [streamAddrNum_exact _ (genGroups_noNil c) (by rw [streamTotal_gen]; exact streamN_small c), streamTotal_gen]

/-- A whole configuration with the given `ratelimit` section and server groups (the other sections
are not looked at by `validateConnLimit`). -/
def confOf (rl : Option S_cmd_rateLimitConfig) (gs : List (Option S_cmd_serverGroup)) : Option S_cmd_configuration :=
  some { RateLimit := rl, Cache := none, Upstream := none, DNSDB := none, DNS := none, Backend := none, QueryLog := none,
         GeoIP := none, Check := none, Web := none, SafeBrowsing := none, AdultBlocking := none, Filters := none,
         ConnectivityCheck := none, InterfaceListeners := none, Network := none, Access := none,
         FilteringGroups := [], ServerGroups := gs }

/-- The exact panic guard of `validateConnLimit`: a nil configuration, a missing `ratelimit` or
`connection_limit` section ("the rest of c must be valid"), or — only when the limit is enabled — a
panic of `streamAddrNum`. -/
theorem validateConnLimit_panics_iff (c : Option S_cmd_configuration) :
    configuration_validateConnLimit c = none ↔
      ∀ c', c = some c' → ∀ rl, c'.RateLimit = some rl → ∀ cl, rl.ConnectionLimit = some cl →
        cl.Enabled = true ∧ serverGroups_streamAddrNum c'.ServerGroups = none := by
  unfold configuration_validateConnLimit
  cases c with
  | none => simp
  | some c' =>
    cases hrl : c'.RateLimit with
    | none => simp [hrl]
    | some rl =>
      cases hcl : rl.ConnectionLimit with
      | none => simp [hrl, hcl]
      | some cl =>
        cases he : cl.Enabled <;> cases hn : serverGroups_streamAddrNum c'.ServerGroups <;>
          simp [hrl, hcl, he, hn]
        split <;> simp

/-- **What `validateConnLimit` accepts**, for every valid configuration: the limit is disabled, or
`resume` is at least the number of stream addresses. -/
theorem validateConnLimit_accepts (c' : S_cmd_configuration) (rl : S_cmd_rateLimitConfig) (cl : S_cmd_connLimitConfig)
    (h1 : c'.RateLimit = some rl) (h2 : rl.ConnectionLimit = some cl) (h3 : NoNil c'.ServerGroups)
    (h4 : (streamTotal c'.ServerGroups : Int) < 18446744073709551616) :
    configuration_validateConnLimit (some c') ≠ none ∧
    (configuration_validateConnLimit (some c') = some none ↔
      (cl.Enabled = false ∨ (streamTotal c'.ServerGroups : Int) ≤ cl.Resume)) := by
  unfold configuration_validateConnLimit
  cases he : cl.Enabled <;> simp [h1, h2, he, streamAddrNum_exact _ h3 h4]
  split <;> simp <;> omega

/-- **The model's `valConnN` accepts exactly when the translated `validateConnLimit` does**, on the
model's configurations with the `ratelimit` and `connection_limit` sections present. -/
theorem validateConnLimit_tr (c : Config) (r : Bool) (hp : c.pRl = true) (hq : c.pCl = true) :
    valConnN false c = [] ↔ configuration_validateConnLimit (confOf (genRl c r) (genGroups c)) = some none := by
  obtain ⟨rl, hrl, hcl'⟩ : ∃ rl, genRl c r = some rl ∧ rl.ConnectionLimit = genConn c := by
    unfold genRl; rw [if_pos hp]; exact ⟨_, rfl, rfl⟩
  have hcl : genConn c = some { Stop := c.clStop, Resume := c.clResume, Enabled := c.clEnabled } := by
    unfold genConn; rw [if_pos hq]
  have h := (validateConnLimit_accepts
    { RateLimit := genRl c r, Cache := none, Upstream := none, DNSDB := none, DNS := none, Backend := none, QueryLog := none,
      GeoIP := none, Check := none, Web := none, SafeBrowsing := none, AdultBlocking := none, Filters := none,
      ConnectivityCheck := none, InterfaceListeners := none, Network := none, Access := none,
      FilteringGroups := [], ServerGroups := genGroups c } rl _ hrl (hcl'.trans hcl) (genGroups_noNil c)
    (by rw [streamTotal_gen]; exact streamN_small c)).2
  unfold confOf
  rw [h, streamTotal_gen]
  unfold valConnN
  cases he : c.clEnabled <;> simp

/-- Non-trivial instances: the distributed file has 6 stream addresses (server 3 is DNS-over-QUIC) and
`resume: 800`; with `resume: 5` it is rejected, with server 3 on TLS the count is 8. -/
example : serverGroups_streamAddrNum (genGroups dist) = some 6 := by decide
example : serverGroups_streamAddrNum (genGroups { dist with proto3 := "tls" }) = some 8 := by decide
example : configuration_validateConnLimit (confOf (genRl dist false) (genGroups dist)) = some none := by decide
example : (configuration_validateConnLimit (confOf (genRl { dist with clResume := 5 } false) (genGroups dist))).map (·.isSome) =
    some true := by decide
example : dist.pRl = true ∧ dist.pCl = true ∧ dist.clEnabled = true := by decide

/-! ### `serverGroups.collectSessTicketPaths` (round 5: the repaired function)

Translated with `trace`: the result is the list of calls on the sorted set.  `builder.initTLSManager`
hands the returned paths to the TLS manager. -/

/-- The session-key files a group contributes: those of its `tls` section, nothing without one. -/
def groupKeys : Option S_cmd_serverGroup → List String
  | some g => match g.TLS with
    | some t => t.SessionKeys
    | none => []
  | none => []

def addCalls (ks : List String) : List (String × List String) := ks.map fun k => ("Add", [k])

theorem addLoop (ρ : Type) (ks : List String) (i : Int) (tr : List (String × List String)) :
    goRangeFrom (σ := List (String × List String)) (ρ := ρ) i ks tr
      (fun st (_ : Int) (k : String) => .next (st ++ [("Add", [k])])) = .inl (tr ++ addCalls ks) := by
  induction ks generalizing i tr with
  | nil => simp [goRangeFrom, addCalls]
  | cons k ks ih => simp [goRangeFrom, ih, addCalls]

theorem foldl_addCalls (gs : List (Option S_cmd_serverGroup)) (tr : List (String × List String)) :
    gs.foldl (fun tr g => tr ++ addCalls (groupKeys g)) tr = tr ++ addCalls (gs.flatMap groupKeys) := by
  induction gs generalizing tr with
  | nil => simp [addCalls]
  | cons g gs ih =>
    rw [List.foldl_cons, ih, List.flatMap_cons]
    simp [addCalls, List.append_assoc]

/-- **`collectSessTicketPaths` after the fix**, for every list of groups without nil group pointers
(what `serverGroups.validate` guarantees) and *whether or not* the groups have a `tls` section: no
panic; the set is created, every session key of every group that has a section is added in file
order, nothing else, and the values of the set are returned. -/
theorem collectSessTicketPaths_trace (gs : List (Option S_cmd_serverGroup)) (set : AbsPtr) (vals : List String)
    (h : ∀ g ∈ gs, g ≠ none) :
    serverGroups_collectSessTicketPaths gs set vals =
      some (vals, [("NewSortedSliceSet", [])] ++ addCalls (gs.flatMap groupKeys) ++ [("Values", [])]) := by
  unfold serverGroups_collectSessTicketPaths
  simp only [goRange?]
  rw [(goRangeFrom?_fold (fun _ => True) (fun tr g => tr ++ addCalls (groupKeys g)) _ gs 0 _ trivial ?_).1]
  · rw [foldl_addCalls]; simp
  · intro tr i g hg _
    cases g with
    | none => exact absurd rfl (h none hg)
    | some g' =>
      cases ht : g'.TLS with
      | none => simp [ht, groupKeys, addCalls]
      | some t => simp [ht, groupKeys, goRange, addLoop]

/-- It never panics on validated groups, with or without `tls` sections. -/
theorem collectSessTicketPaths_total (gs : List (Option S_cmd_serverGroup)) (set : AbsPtr) (vals : List String)
    (h : ∀ g ∈ gs, g ≠ none) : serverGroups_collectSessTicketPaths gs set vals ≠ none := by
  rw [collectSessTicketPaths_trace gs set vals h]; simp

/-- A plain-DNS-only group (no `tls` section — the input on which the tree as found crashed) next to
an encrypted one: only the keys of the latter are added. -/
def plainGroup : Option S_cmd_serverGroup :=
  some { DDR := none, TLS := none, Name := "plain", FilteringGroup := "default", Servers := [], ProfilesEnabled := false }
def tlsGroup : Option S_cmd_serverGroup :=
  some { DDR := none, TLS := some { Certificates := [], SessionKeys := ["k1", "k0"], DeviceIDWildcards := [] },
         Name := "tls", FilteringGroup := "default", Servers := [], ProfilesEnabled := false }
example : serverGroups_collectSessTicketPaths [plainGroup, tlsGroup] true ["k0", "k1"] =
    some (["k0", "k1"], [("NewSortedSliceSet", []), ("Add", ["k1"]), ("Add", ["k0"]), ("Values", [])]) := by decide
example : serverGroups_collectSessTicketPaths [plainGroup] true [] = some ([], [("NewSortedSliceSet", []), ("Values", [])]) := by
  decide
/-- Only a nil group pointer is still dereferenced. -/
example : serverGroups_collectSessTicketPaths [none] true [] = none := by decide

/-- The shape model's view of a translated group, given the numbering of the key files. -/
def toShape (num : String → Nat) : Option S_cmd_serverGroup → Shape.Group
  | some g => { tls := g.TLS.map fun t => { certs := t.Certificates.length, keys := t.SessionKeys.map num },
                profiles := g.ProfilesEnabled }
  | none => {}

theorem collectFrom_fold (gs : List Shape.Group) (acc : List Nat) :
    Shape.collectFrom false gs acc =
      some (Shape.insertAll (gs.flatMap fun g => match g.tls with | some t => t.keys | none => []) acc) := by
  induction gs generalizing acc with
  | nil => simp [Shape.collectFrom, Shape.insertAll]
  | cons g gs ih =>
    unfold Shape.collectFrom
    cases hg : g.tls with
    | none => simp [ih, hg, List.flatMap_cons]
    | some t => simp [ih, hg, List.flatMap_cons, Shape.insertAll, List.foldl_append]

/-- **The model's `Shape.collect false` is the source's loop**: the set the model returns is the one
obtained by adding, in order, exactly the arguments of the `Add` calls of the translated function. -/
theorem collect_tr (num : String → Nat) (gs : List (Option S_cmd_serverGroup)) :
    Shape.collect false (gs.map (toShape num)) = some (Shape.insertAll ((gs.flatMap groupKeys).map num) []) := by
  unfold Shape.collect
  rw [collectFrom_fold]
  congr 2
  induction gs with
  | nil => rfl
  | cons g gs ih =>
    simp only [List.map_cons, List.flatMap_cons, List.map_append, ih]
    congr 1
    cases g with
    | none => simp [toShape, groupKeys]
    | some g' => cases ht : g'.TLS <;> simp [toShape, groupKeys, ht]


end Agd.Tie.TrC20

#print axioms Agd.Tie.TrC20.translation_complete
#print axioms Agd.Tie.TrC20.ite_some_some
#print axioms Agd.Tie.TrC20.posErr_eq_none
#print axioms Agd.Tie.TrC20.firstErr_cons_eq_none
#print axioms Agd.Tie.TrC20.connLimit_total
#print axioms Agd.Tie.TrC20.connLimit_accepts
#print axioms Agd.Tie.TrC20.connLimit_tr
#print axioms Agd.Tie.TrC20.allow_total
#print axioms Agd.Tie.TrC20.allow_accepts
#print axioms Agd.Tie.TrC20.opts_total
#print axioms Agd.Tie.TrC20.opts_accepts
#print axioms Agd.Tie.TrC20.keyLen_total
#print axioms Agd.Tie.TrC20.keyLen_accepts
#print axioms Agd.Tie.TrC20.tcp_total
#print axioms Agd.Tie.TrC20.tcp_accepts
#print axioms Agd.Tie.TrC20.quic_total
#print axioms Agd.Tie.TrC20.quic_accepts
#print axioms Agd.Tie.TrC20.rateLimit_total
#print axioms Agd.Tie.TrC20.rateLimit_accepts
#print axioms Agd.Tie.TrC20.genOpts_accepts
#print axioms Agd.Tie.TrC20.rateLimit_tr
#print axioms Agd.Tie.TrC20.ttl_total
#print axioms Agd.Tie.TrC20.ttl_accepts
#print axioms Agd.Tie.TrC20.cache_total
#print axioms Agd.Tie.TrC20.cache_accepts
#print axioms Agd.Tie.TrC20.cache_tr
#print axioms Agd.Tie.TrC20.dns_total
#print axioms Agd.Tie.TrC20.dns_accepts
#print axioms Agd.Tie.TrC20.dns_tr
#print axioms Agd.Tie.TrC20.dnsdb_total
#print axioms Agd.Tie.TrC20.dnsdb_accepts
#print axioms Agd.Tie.TrC20.dnsdb_tr
#print axioms Agd.Tie.TrC20.geo_total
#print axioms Agd.Tie.TrC20.geo_accepts
#print axioms Agd.Tie.TrC20.geo_tr
#print axioms Agd.Tie.TrC20.queryLog_total
#print axioms Agd.Tie.TrC20.queryLog_accepts
#print axioms Agd.Tie.TrC20.queryLog_tr
#print axioms Agd.Tie.TrC20.access_tr
#print axioms Agd.Tie.TrC20.backend_total
#print axioms Agd.Tie.TrC20.backend_accepts
#print axioms Agd.Tie.TrC20.backend_tr
#print axioms Agd.Tie.TrC20.network_total
#print axioms Agd.Tie.TrC20.network_accepts
#print axioms Agd.Tie.TrC20.network_tr
#print axioms Agd.Tie.TrC20.healthcheck_total
#print axioms Agd.Tie.TrC20.healthcheck_accepts
#print axioms Agd.Tie.TrC20.healthcheck_tr
#print axioms Agd.Tie.TrC20.healthcheck_tr_iff
#print axioms Agd.Tie.TrC20.upstreamServer_accepts
#print axioms Agd.Tie.TrC20.upstreamServer_total
#print axioms Agd.Tie.TrC20.upstreamServer_tr
#print axioms Agd.Tie.TrC20.rlc_total
#print axioms Agd.Tie.TrC20.rlc_accepts
#print axioms Agd.Tie.TrC20.filters_total
#print axioms Agd.Tie.TrC20.filters_accepts
#print axioms Agd.Tie.TrC20.filters_tr
#print axioms Agd.Tie.TrC20.safeBrowsing_total
#print axioms Agd.Tie.TrC20.safeBrowsing_accepts
#print axioms Agd.Tie.TrC20.safeBrowsing_tr
#print axioms Agd.Tie.TrC20.kv_total
#print axioms Agd.Tie.TrC20.kv_accepts
#print axioms Agd.Tie.TrC20.kv_tr
#print axioms Agd.Tie.TrC20.ports_nil
#print axioms Agd.Tie.TrC20.ports_total
#print axioms Agd.Tie.TrC20.ports_accepts
#print axioms Agd.Tie.TrC20.ports_tr
#print axioms Agd.Tie.TrC20.ifaceListener_total
#print axioms Agd.Tie.TrC20.ifaceListener_accepts
#print axioms Agd.Tie.TrC20.ifaceListener_tr
#print axioms Agd.Tie.TrC20.web_accepts
#print axioms Agd.Tie.TrC20.web_total
#print axioms Agd.Tie.TrC20.web_timeout_first
#print axioms Agd.Tie.TrC20.web_tr
#print axioms Agd.Tie.TrC20.limiter_new
#print axioms Agd.Tie.TrC20.limiter_new_nil
#print axioms Agd.Tie.TrC20.connLimit_toInternal_panics_iff
#print axioms Agd.Tie.TrC20.connLimit_toInternal_ok
#print axioms Agd.Tie.TrC20.connLimit_toInternal_build
#print axioms Agd.Tie.TrC20.cache_toInternal_panics_iff
#print axioms Agd.Tie.TrC20.cache_toInternal_eq
#print axioms Agd.Tie.TrC20.cache_toInternal_ok
#print axioms Agd.Tie.TrC20.cache_toInternal_type
#print axioms Agd.Tie.TrC20.rateLimit_toInternal_eq
#print axioms Agd.Tie.TrC20.newBackoff_eq
#print axioms Agd.Tie.TrC20.rateLimit_toInternal_ok
#print axioms Agd.Tie.TrC20.toInternal_nil
#print axioms Agd.Tie.TrC20.network_toInternal_ok
#print axioms Agd.Tie.TrC20.subnetKey_prefix_len
#print axioms Agd.Tie.TrC20.subnetKey_panics_iff
#print axioms Agd.Tie.TrC20.missing_reported
#print axioms Agd.Tie.TrC20.rateLimit_names_ipv4
#print axioms Agd.Tie.TrC20.wrap_add
#print axioms Agd.Tie.TrC20.fold_mod
#print axioms Agd.Tie.TrC20.streamAddrNum_eq
#print axioms Agd.Tie.TrC20.streamAddrNum_exact
#print axioms Agd.Tie.TrC20.genGroups_noNil
#print axioms Agd.Tie.TrC20.streamTotal_gen
#print axioms Agd.Tie.TrC20.streamN_small
#print axioms Agd.Tie.TrC20.streamN_tr
#print axioms Agd.Tie.TrC20.validateConnLimit_panics_iff
#print axioms Agd.Tie.TrC20.validateConnLimit_accepts
#print axioms Agd.Tie.TrC20.validateConnLimit_tr
#print axioms Agd.Tie.TrC20.collectSessTicketPaths_trace
#print axioms Agd.Tie.TrC20.collectSessTicketPaths_total
#print axioms Agd.Tie.TrC20.collect_tr
