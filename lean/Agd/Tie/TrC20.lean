import Agd.Gen.TrC20
import Agd.Model.Config
/-!
# C20: the section validators of the model accept exactly what the translated source accepts

`Agd.Gen.TrC20.*_validate` are regenerated from `internal/cmd/*.go` on every run (`extract/tr.go`):
`Option (Option String)` — outer `none` is a run-time panic (nil dereference), `some none` is
"accepted", `some (some text)` is a validation error labelled with the source text that made it.
The theorems relate them to the hand-written `Agd.Config.val*` functions (which every C20 theorem is
about) and state directly on the translated code that validation never panics and that acceptance
implies the documented constraints.
-/
namespace Agd.Tie.TrC20
open Agd.Gen.TrC20 Agd.TrPrelude Agd.Config

theorem translation_complete : translationFailures = [] := by decide

/-! ## `ratelimit.connection_limit` -/

/-- The section as the translated code sees it. -/
def genConn (c : Config) : Option S_cmd_connLimitConfig :=
  if c.pCl then some { Stop := c.clStop, Resume := c.clResume, Enabled := c.clEnabled } else none

/-- Validation of the section never panics, whatever the section holds (also when it is missing). -/
theorem connLimit_total (x : Option S_cmd_connLimitConfig) : connLimitConfig_validate x ≠ none := by
  cases x with
  | none => simp [connLimitConfig_validate]
  | some s =>
    simp only [connLimitConfig_validate, Option.isNone_some, Bool.false_eq_true, ↓reduceIte, Option.bind_some]
    repeat' split
    all_goals simp

/-- Acceptance by the translated source, stated outright: present, and either disabled or
`0 < stop`, `0 < resume ≤ stop` (the fields are unsigned). -/
theorem connLimit_accepts (s : S_cmd_connLimitConfig) (h0 : 0 ≤ s.Stop) (h1 : 0 ≤ s.Resume) :
    connLimitConfig_validate (some s) = some none ↔
      (s.Enabled = false ∨ (0 < s.Stop ∧ 0 < s.Resume ∧ s.Resume ≤ s.Stop)) := by
  simp only [connLimitConfig_validate, Option.isNone_some, Bool.false_eq_true, ↓reduceIte, Option.bind_some]
  cases he : s.Enabled <;> simp
  repeat' split
  all_goals simp_all
  all_goals omega

/-- The model's `valConn` accepts exactly when the translated `connLimitConfig.validate` does. -/
theorem connLimit_tr (c : Config) (h0 : 0 ≤ c.clStop) (h1 : 0 ≤ c.clResume) :
    valConn false c = [] ↔ connLimitConfig_validate (genConn c) = some none := by
  unfold genConn
  cases hp : c.pCl
  · simp [valConn, sect, hp, connLimitConfig_validate]
  · simp only [↓reduceIte]
    rw [connLimit_accepts _ h0 h1]
    simp only [valConn, sect, hp, ↓reduceIte, firstOf, pos]
    cases he : c.clEnabled <;> simp [firstOf]
    repeat' split
    all_goals simp_all [firstOf]
    all_goals omega

example : connLimitConfig_validate (genConn dist) = some none := by decide
example : connLimitConfig_validate (some ⟨10, 0, true⟩) = some (some "newNotPositiveError(\"resume\", c.Resume)") := by decide

end Agd.Tie.TrC20

#print axioms Agd.Tie.TrC20.translation_complete
#print axioms Agd.Tie.TrC20.connLimit_total
#print axioms Agd.Tie.TrC20.connLimit_accepts
#print axioms Agd.Tie.TrC20.connLimit_tr
