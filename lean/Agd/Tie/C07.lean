import Agd.Gen.C07
/-! Tie theorems for C07: the source facts the pool model was written against still hold in /repo. -/
namespace Agd.Tie.C07
set_option maxRecDepth 8192
open Agd.Gen.C07

/-- Answer records cloned through a pool are exactly the ones put back (model: pooled kinds are donated). -/
theorem clone_answer_cases_src : clone_answer_cases =
    "*dns.A | *dns.AAAA | *dns.CNAME | *dns.HTTPS | *dns.MX | *dns.PTR | *dns.SRV | *dns.TXT | default" := by decide
theorem put_answer_cases_src : put_answer_cases = clone_answer_cases := by decide
/-- Authority: only SOA is pooled; additional: only OPT. -/
theorem append_ns_cases_src : append_ns_cases = "*dns.SOA | default" := by decide
theorem append_extra_cases_src : append_extra_cases = "*dns.OPT | default" := by decide
theorem dispose_cases_src : dispose_cases = "*dns.SOA | default | *dns.OPT | default" := by decide
theorem dispose_calls_src : dispose_calls = "c.putAnswers,c.soa.Put,c.opt.put,c.msg.Put" := by decide
/-- Every SVCB value kind that is cloned through a pool is put back; the two empty kinds are shared. -/
theorem clone_kv_cases_src : clone_kv_cases =
    "*dns.SVCBAlpn | *dns.SVCBDoHPath | *dns.SVCBECHConfig | *dns.SVCBLocal | *dns.SVCBMandatory | *dns.SVCBPort | *dns.SVCBNoDefaultAlpn,*dns.SVCBOhttp | default" := by decide
theorem clone_hint_cases_src : clone_hint_cases = "*dns.SVCBIPv4Hint | *dns.SVCBIPv6Hint | default" := by decide
theorem put_kv_cases_src : put_kv_cases =
    "*dns.SVCBAlpn | *dns.SVCBDoHPath | *dns.SVCBECHConfig | *dns.SVCBIPv4Hint | *dns.SVCBIPv6Hint | *dns.SVCBLocal | *dns.SVCBMandatory | *dns.SVCBPort | *dns.SVCBNoDefaultAlpn,*dns.SVCBOhttp | default" := by decide
/-- `donate` for address buffers: capacity exactly 16 (the `fix:` commit; `>=` is `donateOld`). -/
theorem put_ips_cond_src : put_ips_cond = "cap(ip) == 16" := by decide
/-- `acquire` for address buffers: append into the pooled array from position 0. -/
theorem append_ips_rhs_src : append_ips_rhs = "append(ipArr[:0], origIP...)" := by decide
/-- OPT options: cookie, EDE, subnet are pooled; anything else makes the whole OPT a `dns.Copy`. -/
theorem opt_clone_cases_src : opt_clone_cases = "*dns.EDNS0_COOKIE | *dns.EDNS0_EDE | *dns.EDNS0_SUBNET | default" := by decide
theorem opt_put_cases_src : opt_put_cases = "*dns.EDNS0_COOKIE | *dns.EDNS0_SUBNET | *dns.EDNS0_EDE | default" := by decide
/-- The fall-back copies deeply: `copyOPT` = `dns.Copy` plus fresh subnet addresses (the `fix:` commit;
`cloneStepOld` is the old code, where the subnet address stayed shared). -/
theorem opt_clone_fallback_src : opt_clone_fallback = "copyOPT(rr), false" := by decide
theorem copy_opt_address_src : copy_opt_address = "slices.Clone(sn.Address)" := by decide
/-- `newOPT` resets the whole header of a recycled OPT (the `fix:` commit; `mkObjOld` is the old code). -/
theorem new_opt_hdr_src : new_opt_hdr = "dns.RR_Header{}" := by decide
/-- Only the UDP and TCP writers dispose in `ServerBase`; `mainmw` disposes the original only when it
wrote a different message. -/
theorem serverbase_dispose_cases_src : serverbase_dispose_cases = "*tcpResponseWriter,*udpResponseWriter | default" := by decide
theorem mainmw_dispose_cond_src : mainmw_dispose_cond =
    "fctx.isDebug | err != nil | err != nil | fctx.isDebug | err != nil | fctx.filteredResponse != fctx.originalResponse" := by decide
/-- The slices of a clone are the pooled struct's own arrays re-sliced to length 0 (or nil, or a fresh empty
slice) and never the original's: the model clones an array object into storage of the pool or into fresh
cells (`cloneObj`), which is what `Inv.liveSep` — on capacities — and `no_cap_alias` rest on. -/
theorem clone_answer_args_src : clone_answer_args = "clone.Answer[:0], msg.Answer" := by decide
theorem clone_ns_args_src : clone_ns_args = "clone.Ns[:0], msg.Ns" := by decide
theorem clone_extra_args_src : clone_extra_args = "clone.Extra[:0], msg.Extra" := by decide
theorem append_answer_returns_src : append_answer_returns = "nil, true | clones, full" := by decide
theorem append_ns_returns_src : append_ns_returns = append_answer_returns := by decide
theorem append_extra_returns_src : append_extra_returns = append_answer_returns := by decide
theorem append_if_not_nil_returns_src : append_if_not_nil_returns = "nil | []T{} | append(clones, original...)" := by decide
theorem opt_clone_option_rhs_src : opt_clone_option_rhs = "clone.Option[:0]" := by decide
theorem https_clone_value_rhs_src : https_clone_value_rhs = "clone.Value[:0]" := by decide

/-! ### Pooled request contexts (`Agd/Model/PoolCtx.lean`)

The model's discipline `ReadsOkC` — a request reads only fields it has filled since `Get`, or fields that the
pool's `New` sets and nobody ever writes — is tied to the five pooled structs field by field: the fields of
each struct, and the assignment that fills each of them from the request's own data. -/

/-- `agd.RequestInfo`: 13 fields. -/
theorem ri_fields_src : ri_fields =
    "DeviceResult,Location,ECS,FilteringGroup,Messages,ServerGroup,RemoteIP,Server,Host,ID,QType,QClass,Proto" := by decide
/-- Four of them are set by the pool's `New` (the pool belongs to one server's middleware) … -/
def riPoolNew : String :=
  "func() (v *agd.RequestInfo) { return &agd.RequestInfo{ FilteringGroup: c.FilteringGroup, ServerGroup: c.ServerGroup, Server: c.Server.Name, Proto: c.Server.Protocol, } }"
theorem ri_pool_new_src : ri_pool_new = riPoolNew := by decide
/-- … the other nine are filled for every request, from the request. -/
theorem ri_fill_messages_src : ri_fill_messages = "mw.messages" := by decide
theorem ri_fill_remote_src : ri_fill_remote = "raddr.Addr()" := by decide
theorem ri_fill_host_src : ri_fill_host = "agdnet.NormalizeDomain(q.Name)" := by decide
theorem ri_fill_qtype_src : ri_fill_qtype = "q.Qtype" := by decide
theorem ri_fill_qclass_src : ri_fill_qclass = "q.Qclass" := by decide
theorem ri_fill_id_src : ri_fill_id = "agd.RequestIDFromContext(ctx)" := by decide
theorem ri_fill_device_src : ri_fill_device = "mw.deviceFinder.Find(ctx, req, raddr, localAddr)" := by decide
theorem ri_fill_loc_ecs_src : ri_fill_loc_ecs = "loc, ecs" := by decide
/-- `filteringContext`: all eight fields are reset at once. -/
theorem fctx_fields_src : fctx_fields =
    "originalRequest,modifiedRequest,originalResponse,filteredResponse,requestResult,responseResult,elapsed,isDebug" := by decide
theorem fctx_reset_src : fctx_reset = "filteringContext{}" := by decide
/-- `filter.Request`: seven fields, each filled (`ClientName` in both branches). -/
theorem fltreq_fields_src : fltreq_fields = "DNS,Messages,RemoteIP,ClientName,Host,QType,QClass" := by decide
theorem fltreq_fill_dns_src : fltreq_fill_dns = "req" := by decide
theorem fltreq_fill_messages_src : fltreq_fill_messages = "ri.Messages" := by decide
theorem fltreq_fill_remoteip_src : fltreq_fill_remoteip = "ri.RemoteIP" := by decide
theorem fltreq_fill_host_src : fltreq_fill_host = "ri.Host" := by decide
theorem fltreq_fill_qtype_src : fltreq_fill_qtype = "ri.QType" := by decide
theorem fltreq_fill_qclass_src : fltreq_fill_qclass = "ri.QClass" := by decide
theorem fltreq_fill_clientname_src : fltreq_fill_clientname = "string(d.Name)" := by decide
theorem fltreq_fill_clientname_else_src : fltreq_fill_clientname_else = "\"\"" := by decide
/-- `filter.Response`: three fields. -/
theorem fltresp_fields_src : fltresp_fields = "DNS,RemoteIP,ClientName" := by decide
theorem fltresp_fill_dns_src : fltresp_fill_dns = "resp" := by decide
theorem fltresp_fill_remoteip_src : fltresp_fill_remoteip = "ri.RemoteIP" := by decide
theorem fltresp_fill_clientname_src : fltresp_fill_clientname = "string(d.Name)" := by decide
theorem fltresp_fill_clientname_else_src : fltresp_fill_clientname_else = "\"\"" := by decide
/-- `ecscache.cacheRequest`: six fields; `subnet` is assigned on both branches. -/
theorem cr_fields_src : cr_fields = "host,subnet,qType,qClass,reqDO,isECSDeclined" := by decide
theorem cr_fill_key_src : cr_fill_key = "ri.Host, ri.QType, ri.QClass" := by decide
theorem cr_fill_do_src : cr_fill_do = "dnsmsg.IsDO(req)" := by decide
theorem cr_fill_declined_src : cr_fill_declined = "ri.ECS != nil && ri.ECS.Subnet.Bits() == 0" := by decide
theorem cr_fill_subnet_zero_src : cr_fill_subnet_zero = "netutil.ZeroPrefix(ecsFam)" := by decide
theorem cr_fill_subnet_geo_src : cr_fill_subnet_geo = "mw.geoIP.SubnetByLocation(loc, ecsFam)" := by decide
/-- `mainmw`: the upstream's answer is released after its last use (the query log reads it). -/
theorem wrap_call_order_src : wrap_call_order = "rw.WriteMsg,mw.recordQueryInfo,mw.cloner.Dispose" := by decide
/-- Every pooled context is put back exactly once per request, by one (deferred) call; the access check does
not put the request information back.  (`context_double_put_counterexample`: what a second `Put` does.) -/
theorem ri_put_count_src : ri_put_count = "1" := by decide
theorem ri_put_in_access_src : ri_put_in_access = "0" := by decide
/-- (Since the C10 repair the access check has a global and a profile half; neither returns the object.) -/
theorem ri_put_in_access_global_src : ri_put_in_access_global = "0" := by decide
theorem fctx_put_count_src : fctx_put_count = "1" := by decide
theorem cr_put_count_src : cr_put_count = "1" := by decide
theorem qlog_buf_put_count_src : qlog_buf_put_count = "1" := by decide

/-! ### Shared long-lived messages are only read (`ro` of `shared_readonly_interleaving_irrelevant`)

A cache hit clones the message of the item and sets the reply data (ID, question, RD/CD, Rcode) on the
clone; the simple cache builds a new message and copies every record; the hash-prefix filter caches the
matched name, not the result, and constructs the result anew for every request.
(`shared_write_then_clone_counterexample`: what a reply set on the item before the clone does.) -/
theorem ecs_hit_calls_src : ecs_hit_calls = "cloner.Clone,resp.SetRcode,setRespAD" := by decide
theorem ecs_hit_clone_arg_src : ecs_hit_clone_arg = "item.msg" := by decide
theorem simple_hit_calls_src : simple_hit_calls = "msg.SetReply,dns.Copy,dns.Copy,dns.Copy" := by decide
theorem hashprefix_hit_return_src : hashprefix_hit_return = "f.filteredResult(req, item.matched, fam)" := by decide

/-! ### Shared long-lived messages are created as copies and never handed out (round 3)

What the caches keep is a clone / copy of the response, not the response itself: the response goes on to
the client and is released by the server after it was written (`cache_keeps_response_counterexample`:
what a cache that keeps the response itself serves later).  A DDR response is built from copies of the
record templates of the server group; the device ID of the client is written into the copy. -/
theorem ecs_set_clone_src : ecs_set_clone = "mw.cloner.Clone(resp)" := by decide
theorem ecs_set_item_arg_src : ecs_set_item_arg = "cachedResp, cr.host" := by decide
theorem simple_set_item_src : simple_set_item = "cacheItem{ msg: msg.Copy(), when: time.Now(), }" := by decide
theorem ddr_device_copy_src : ddr_device_copy = "dns.Copy(rr).(*dns.SVCB)" := by decide
theorem ddr_public_copy_src : ddr_public_copy = "dns.Copy(rr).(*dns.SVCB)" := by decide
theorem ddr_writes_src : ddr_writes = "ri.Messages.NewResp,dns.Copy,append,dns.Copy,append" := by decide

/-! ### The pooled buffer of the human-ID normaliser

The buffer is emptied before it is used (`buf.Reset` is the first call on it after `Get`) and the result
is a copy of its bytes (`string(b)`), so neither the content nor the storage of one client's identifier
reaches another's. -/
theorem humanid_buf_calls_src : humanid_buf_calls = "p.pool.Get,p.pool.Put,buf.Reset,n.result" := by decide
theorem humanid_result_copy_src : humanid_result_copy = "string(b)" := by decide

/-! ### Round 4: who releases a response, and when

`ServerBase.serveDNSMsg` releases after the handler (which has written through the UDP / TCP writer) and the
metrics listener; the DoH handler and the DoQ stream handler release after they have written the response
themselves; the UDP writer packs into a pooled byte buffer and writes it before anything can put it back
(`Agd.Release.serve`). -/
theorem serve_msg_release_order_src : serve_msg_release_order = "s.serveDNSMsgInternal,s.metrics.OnRequest,s.dispose" := by decide
theorem doh_release_order_src : doh_release_order = "h.srv.serveDNS,h.writeResponse,h.srv.disposer.Dispose" := by decide
theorem doq_release_order_src : doq_release_order = "s.serveDNSMsg,packWithPrefix,stream.Write,s.disposer.Dispose" := by decide
theorem udp_writer_order_src : udp_writer_order = "normalize,r.respPool.Put,resp.PackBuffer,netext.WriteToSession" := by decide
/-- The class of a debug question: rewritten in the request itself, restored when the handler returns (the
`fix:` commit); the server's SERVFAIL is built from the request (`Agd.Release.handle`, `answeredClass`). -/
theorem debug_class_rewrite_src : debug_class_rewrite = "dns.ClassINET" := by decide
theorem debug_class_restore_src : debug_class_restore = "dns.ClassCHAOS" := by decide
theorem error_response_from_request_src : error_response_from_request = "req, dns.RcodeServerFailure" := by decide

end Agd.Tie.C07
