import Agd.Gen.C07
/-! Tie theorems for C07: the source facts the pool model was written against still hold in /repo. -/
namespace Agd.Tie.C07
set_option maxRecDepth 8192
open Agd.Gen.C07

/-- Answer records cloned through a pool are exactly the ones put back (model: pooled kinds are donated). -/
theorem clone_answer_cases_src : clone_answer_cases =
    "*dns.A | *dns.AAAA | *dns.CNAME | *dns.HTTPS | *dns.MX | *dns.PTR | *dns.SRV | *dns.TXT | default" := by decide
theorem put_answer_cases_src : put_answer_cases = clone_answer_cases := by decide
/-- Authority: only SOA is pooled; additional: only OPT. -/
theorem append_ns_cases_src : append_ns_cases = "*dns.SOA | default" := by decide
theorem append_extra_cases_src : append_extra_cases = "*dns.OPT | default" := by decide
theorem dispose_cases_src : dispose_cases = "*dns.SOA | default | *dns.OPT | default" := by decide
theorem dispose_calls_src : dispose_calls = "c.putAnswers,c.soa.Put,c.opt.put,c.msg.Put" := by decide
/-- Every SVCB value kind that is cloned through a pool is put back; the two empty kinds are shared. -/
theorem clone_kv_cases_src : clone_kv_cases =
    "*dns.SVCBAlpn | *dns.SVCBDoHPath | *dns.SVCBECHConfig | *dns.SVCBLocal | *dns.SVCBMandatory | *dns.SVCBPort | *dns.SVCBNoDefaultAlpn,*dns.SVCBOhttp | default" := by decide
theorem clone_hint_cases_src : clone_hint_cases = "*dns.SVCBIPv4Hint | *dns.SVCBIPv6Hint | default" := by decide
theorem put_kv_cases_src : put_kv_cases =
    "*dns.SVCBAlpn | *dns.SVCBDoHPath | *dns.SVCBECHConfig | *dns.SVCBIPv4Hint | *dns.SVCBIPv6Hint | *dns.SVCBLocal | *dns.SVCBMandatory | *dns.SVCBPort | *dns.SVCBNoDefaultAlpn,*dns.SVCBOhttp | default" := by decide
/-- `donate` for address buffers: capacity exactly 16 (the `fix:` commit; `>=` is `donateOld`). -/
theorem put_ips_cond_src : put_ips_cond = "cap(ip) == 16" := by decide
/-- `acquire` for address buffers: append into the pooled array from position 0. -/
theorem append_ips_rhs_src : append_ips_rhs = "append(ipArr[:0], origIP...)" := by decide
/-- OPT options: cookie, EDE, subnet are pooled; anything else makes the whole OPT a `dns.Copy`. -/
theorem opt_clone_cases_src : opt_clone_cases = "*dns.EDNS0_COOKIE | *dns.EDNS0_EDE | *dns.EDNS0_SUBNET | default" := by decide
theorem opt_put_cases_src : opt_put_cases = "*dns.EDNS0_COOKIE | *dns.EDNS0_SUBNET | *dns.EDNS0_EDE | default" := by decide
/-- The fall-back copies deeply: `copyOPT` = `dns.Copy` plus fresh subnet addresses (the `fix:` commit;
`cloneStepOld` is the old code, where the subnet address stayed shared). -/
theorem opt_clone_fallback_src : opt_clone_fallback = "copyOPT(rr), false" := by decide
theorem copy_opt_address_src : copy_opt_address = "slices.Clone(sn.Address)" := by decide
/-- `newOPT` resets the whole header of a recycled OPT (the `fix:` commit; `mkObjOld` is the old code). -/
theorem new_opt_hdr_src : new_opt_hdr = "dns.RR_Header{}" := by decide
/-- Only the UDP and TCP writers dispose in `ServerBase`; `mainmw` disposes the original only when it
wrote a different message. -/
theorem serverbase_dispose_cases_src : serverbase_dispose_cases = "*tcpResponseWriter,*udpResponseWriter | default" := by decide
theorem mainmw_dispose_cond_src : mainmw_dispose_cond =
    "err != nil | err != nil | fctx.isDebug | err != nil | fctx.filteredResponse != fctx.originalResponse" := by decide
/-- The slices of a clone are the pooled struct's own arrays re-sliced to length 0 (or nil, or a fresh empty
slice) and never the original's: the model clones an array object into storage of the pool or into fresh
cells (`cloneObj`), which is what `Inv.liveSep` — on capacities — and `no_cap_alias` rest on. -/
theorem clone_answer_args_src : clone_answer_args = "clone.Answer[:0], msg.Answer" := by decide
theorem clone_ns_args_src : clone_ns_args = "clone.Ns[:0], msg.Ns" := by decide
theorem clone_extra_args_src : clone_extra_args = "clone.Extra[:0], msg.Extra" := by decide
theorem append_answer_returns_src : append_answer_returns = "nil, true | clones, full" := by decide
theorem append_ns_returns_src : append_ns_returns = append_answer_returns := by decide
theorem append_extra_returns_src : append_extra_returns = append_answer_returns := by decide
theorem append_if_not_nil_returns_src : append_if_not_nil_returns = "nil | []T{} | append(clones, original...)" := by decide
theorem opt_clone_option_rhs_src : opt_clone_option_rhs = "clone.Option[:0]" := by decide
theorem https_clone_value_rhs_src : https_clone_value_rhs = "clone.Value[:0]" := by decide

end Agd.Tie.C07
