import Agd.Gen.C19
import Agd.Model.LinkIP
/-! Tie theorems for C19: the source facts the model was written against still hold in the
repository's working tree (`internal/websvc/linkip.go`, `websvc.go`, golibs `httphdr`). -/
namespace Agd.Tie.C19
open Agd.Gen.C19 Agd.LinkIP

/-- `shouldProxy` splits the path without one leading slash into at most 5 parts … -/
theorem split_args_src : split_args = "strings.TrimPrefix(urlPath, \"/\"), \"/\", 5" := by decide
/-- … accepts 3 or 4 of them … -/
theorem len_guard_src : len_guard = "l < 3 || l > 4" := by decide
/-- … refuses dot segments (the `fix:` commit; absent on the pinned tree) … -/
theorem dot_guard_src : dot_guard = "part == \".\" || part == \"..\"" := by decide
/-- … and dispatches on GET / POST only. -/
theorem method_cases_src : method_cases = "http.MethodGet | http.MethodPost | default" := by decide
theorem sp_returns_src :
    sp_returns = "false | false | shouldProxyGet(parts) | shouldProxyPost(parts) | false" := by decide
theorem get_return_src :
    get_return = "parts[0] == \"linkip\" && (l == 3 || (l == 4 && parts[3] == \"status\"))" := by decide
theorem post_return_src :
    post_return = "(firstPart == \"ddns\" && l == 4) || (firstPart == \"linkip\" && l == 3)" := by decide

/-- `ServeHTTP`: decision order, inputs, the four deletions, the peer address source, the two sets. -/
theorem serve_conds_src :
    serve_conds = "shouldProxy(m, p) | err != nil | r.URL.Path == \"/robots.txt\"" := by decide
theorem serve_inputs_src : serve_inputs = "r.Method, r.URL.Path, r.RemoteAddr" := by decide
theorem del_src : (del0, del1, del2, del3, del_count) =
    ("httphdr.CFConnectingIP", "httphdr.Forwarded", "httphdr.TrueClientIP", "httphdr.XRealIP", "4") := by decide
/-- the deletions and the two sets act on the header map of the request that is handed to the proxy
(no clone in between). -/
theorem hdr_alias_src : hdr_alias = "r.Header" := by decide
theorem ip_source_src : ip_source = "netutil.SplitHost(rAddr)" := by decide
theorem set_src : (set0, set1) = ("httphdr.XConnectingIP, ip", "httphdr.XRequestID, reqID.String()") := by decide
theorem serve_calls_src : serve_calls =
    "hdr.Del,hdr.Del,hdr.Del,hdr.Del,netutil.SplitHost,hdr.Set,hdr.Set,prx.httpProxy.ServeHTTP,serveRobotsDisallow,http.NotFound" := by
  decide

/-- `Rewrite` (not `Director`): `SetURL(apiURL)`, Host override, and the headers set after the
hop-by-hop removal (the second `fix:` commit). -/
theorem rewrite_src : (rewrite_seturl, rewrite_host, rewrite_set0) =
    ("apiURL", "apiURL.Host", "httphdr.UserAgent, agdhttp.UserAgent()") := by decide
theorem rewrite_reset_src : (rewrite_set1, rewrite_set2) =
    ("httphdr.XConnectingIP, r.In.Header.Get(httphdr.XConnectingIP)",
     "httphdr.XRequestID, r.In.Header.Get(httphdr.XRequestID)") := by decide
/-- … and, last, the protocol switch is taken out of the outgoing request (third `fix:` commit). -/
theorem rewrite_drop_upgrade_src : (rewrite_del0, rewrite_del1, hdr_name_connection, hdr_name_upgrade) =
    ("hdrNameConnection", "hdrNameUpgrade", "\"Connection\"", "\"Upgrade\"") := by decide
theorem model_upgrade_names : [hConnection, hUpgrade].map String.ofList = ["Connection", "Upgrade"] := by decide
/-- `websvc.New` builds the handler from the configured target URL. -/
theorem mount_src : mount_args = "l.TargetURL, c.ErrColl, addr, c.Timeout" := by decide

/-- Round 4, production wiring: the cmd builder hands `LINKED_IP_TARGET_URL` (and no other URL of the
environment) to the linked-IP server, as a clone of the whole URL; `initWeb` builds the service from
exactly that configuration; the general web handler (non-DoH bind addresses and the non-DNS requests
of the DoH servers) calls neither the linked-IP handler nor `shouldProxy`. -/
theorem cmd_wiring_src : (cmd_linkedip_args, cmd_target_url, cmd_initweb_conf, cmd_initweb_new) =
    ("ctx, tlsMgr, envs.LinkedIPTargetURL", "netutil.CloneURL(&targetURL.URL)",
     "c.toInternal(ctx, b.env, b.dnsCheck, b.errColl, b.tlsManager)", "websvc.New(webConf)") := by decide
theorem general_handler_src : general_handler_calls =
    "svc.dnsCheck.ServeHTTP,serveRobotsDisallow,http.NotFound,http.Redirect,svc.staticContent.ServeHTTP" := by decide

/-- The golibs header-name constants are the canonical names the model uses. -/
theorem hdr_names_src :
    [hdr_XConnectingIP, hdr_XRequestID, hdr_CFConnectingIP, hdr_Forwarded, hdr_TrueClientIP, hdr_XRealIP,
     hdr_XForwardedFor, hdr_XForwardedHost, hdr_XForwardedProto] =
    ["\"X-Connecting-Ip\"", "\"X-Request-Id\"", "\"Cf-Connecting-Ip\"", "\"Forwarded\"", "\"True-Client-Ip\"",
     "\"X-Real-Ip\"", "\"X-Forwarded-For\"", "\"X-Forwarded-Host\"", "\"X-Forwarded-Proto\""] := by decide
theorem model_names :
    [hXConnectingIP, hXRequestID, hCFConnectingIP, hForwarded, hTrueClientIP, hXRealIP, hXForwardedFor,
     hXForwardedHost, hXForwardedProto].map String.ofList =
    ["X-Connecting-Ip", "X-Request-Id", "Cf-Connecting-Ip", "Forwarded", "True-Client-Ip", "X-Real-Ip",
     "X-Forwarded-For", "X-Forwarded-Host", "X-Forwarded-Proto"] := by decide

end Agd.Tie.C19
