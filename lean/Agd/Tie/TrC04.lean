import Agd.Gen.TrC04
import Agd.Model.Cache
/-!
# C04: `roundDiv` of the model is the translated source

`Agd.Gen.TrC04.roundDiv` is regenerated from `internal/ecscache/cache.go` on every run
(`extract/tr.go`): Go's truncating division is `Int.tdiv`, a zero divisor is a panic (`none`).
-/
namespace Agd.Tie.TrC04
open Agd.Gen.TrC04 Agd.TrPrelude

theorem translation_complete : translationFailures = [] := by decide

/-- For every numerator and every non-zero denominator the source computes the model's `roundDiv`;
with a zero denominator it panics (the only caller passes `time.Second`). -/
theorem roundDiv_tr (num denom : Int) :
    Agd.Gen.TrC04.roundDiv num denom = if denom = 0 then none else some (Agd.Cache.roundDiv num denom) := by
  unfold Agd.Gen.TrC04.roundDiv Agd.Cache.roundDiv goDiv?
  by_cases hd : denom = 0
  · subst hd; simp
  · simp only [hd, ↓reduceIte]
    by_cases h : (decide (num < 0)) = (decide (denom < 0))
    · simp [h]
    · simp [h]

example : Agd.Gen.TrC04.roundDiv 1500000000 1000000000 = some 2 ∧ Agd.Gen.TrC04.roundDiv 1499999999 1000000000 = some 1 ∧
    Agd.Gen.TrC04.roundDiv 7 0 = none := by decide

end Agd.Tie.TrC04

#print axioms Agd.Tie.TrC04.translation_complete
#print axioms Agd.Tie.TrC04.roundDiv_tr
