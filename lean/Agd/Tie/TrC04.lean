import Agd.Gen.TrC04
import Agd.Model.Cache
import Agd.Lemmas.Cache
/-!
# C04: the decision code of both response caches, as translated from the source

`Agd.Gen.TrC04.*` are regenerated on every run (`extract/tr.go`) from `internal/ecscache/{cache,msg,ecscache}.go`,
`internal/dnsserver/cache/cache.go` and `internal/dnsmsg/dnsmsg.go`.  Integers are `Int` (Go's truncating division is
`Int.tdiv`, a zero divisor or a nil dereference is `none` = panic, `uint32(x)` is `goWrapU 2^32 x`); library calls
(`FindLowestTTL`, `time.Since`, the LRU caches, `toCacheKey`, `Clone`, …) are opaque: their results are parameters and
the definitions return the *trace* of the calls made and of the fields of library objects written, in order; values of
library types are symbolic names (`"mw.cache"`, `"mw.ecsCache"`, `"nil"`).

Part 1 proves that the hand-written model (`Agd/Model/Cache.lean`) computes what the translated source computes, for
all inputs; part 2 states clauses of the property directly on the translated code.
-/
namespace Agd.Tie.TrC04
open Agd.Gen.TrC04 Agd.TrPrelude Agd.Cache

theorem translation_complete : translationFailures = [] := by decide

/-- Names of the calls / writes in a trace. -/
def names (tr : List (String × List String)) : List String := tr.map (·.1)

/-- `a` occurs in the list and `b` occurs somewhere after that occurrence. -/
def before (a b : String) : List String → Bool
  | [] => false
  | x :: xs => if x == a then xs.contains b else before a b xs

/-- The lifetime handed to the cache (`SetWithExpire`'s last argument), if the trace stores at all. -/
def expiryOf (tr : List (String × List String)) : Option String :=
  (tr.find? (fun e => e.1 == "SetWithExpire")).bind (·.2.getLast?)

/-- Does the trace look an item up in the named cache (second argument of `itemFromCache`)? -/
def consults (cache : String) (tr : List (String × List String)) : Bool :=
  tr.any fun e => e.1 == "itemFromCache" && e.2[1]? == some cache

theorem ts_true : toString true = "true" := rfl

/-! ## Part 1 — model = translated source -/

/-- For every numerator and every non-zero denominator the source computes the model's `roundDiv`;
with a zero denominator it panics (the only caller passes `time.Second`). -/
theorem roundDiv_tr (num denom : Int) :
    Agd.Gen.TrC04.roundDiv num denom = if denom = 0 then none else some (Agd.Cache.roundDiv num denom) := by
  unfold Agd.Gen.TrC04.roundDiv Agd.Cache.roundDiv goDiv?
  by_cases hd : denom = 0
  · subst hd; simp
  · simp only [hd, ↓reduceIte]
    by_cases h : (decide (num < 0)) = (decide (denom < 0))
    · simp [h]
    · simp [h]

example : Agd.Gen.TrC04.roundDiv 1500000000 1000000000 = some 2 ∧ Agd.Gen.TrC04.roundDiv 1499999999 1000000000 = some 1 ∧
    Agd.Gen.TrC04.roundDiv 7 0 = none := by decide

theorem roundDiv_sec (x : Int) :
    Agd.Gen.TrC04.roundDiv x 1000000000 = some (Agd.Cache.roundDiv x 1000000000) := by
  rw [roundDiv_tr, if_neg (by omega)]

/-- `respIsECSDependent(scope, fqdn)` is the model's `Ecs.respDep` (scope is a `uint8`; `fake` = `FakeECSFQDNs.Has(fqdn)`). -/
theorem respIsECSDependent_tr (scope : Nat) (fqdn : String) (fake : Bool) :
    respIsECSDependent (scope : Int) fqdn fake = Ecs.respDep scope fake := by
  have h : ((scope : Int) = 0) = (scope = 0) := propext (by omega)
  simp only [respIsECSDependent, Ecs.respDep, h]
  by_cases a : scope = 0 <;> simp [a]

/-- `isCacheable` of the ECS cache is the model's, for every message (truncation flag, number of questions, rcode and
the verdict of `isCacheableNOERROR` are what the source reads). -/
theorem ecs_isCacheable_tr (qt : Nat) (m : Msg) :
    ecs_isCacheable m.tc (m.nq : Int) (m.rcode : Int) (cacheableNoErr qt m) = isCacheable qt m := by
  have h1 : ((m.nq : Int) = 1) = (m.nq = 1) := propext (by omega)
  have h0 : ((m.rcode : Int) = 0) = (m.rcode = 0) := propext (by omega)
  have h3 : ((m.rcode : Int) = 3) = (m.rcode = 3) := propext (by omega)
  have h2 : ((m.rcode : Int) = 2) = (m.rcode = 2) := propext (by omega)
  simp only [ecs_isCacheable, isCacheable, rcSuccess, rcNameError, rcServFail, h1, h0, h2, h3]
  cases m.tc <;> by_cases a : m.nq = 1 <;> by_cases b : m.rcode = 0 <;> by_cases c : m.rcode = 3 <;>
    by_cases d : m.rcode = 2 <;> simp [a, b, c, d]

/-- The simple cache's `isCacheable` is the same function as the ECS cache's (the model has one `isCacheable`). -/
theorem simple_isCacheable_same (tc : Bool) (nq rc : Int) (noerr : Bool) :
    simple_isCacheable tc nq rc noerr = ecs_isCacheable tc nq rc noerr := by
  simp [simple_isCacheable, ecs_isCacheable]

/-- `dnsmsg.getTTLIfLower` is the model's `ttlIfLower`: OPT records are skipped, a SOA contributes its MINIMUM. -/
theorem dnsmsg_getTTLIfLower_tr (r : RR) (t : Nat) :
    dnsmsg_getTTLIfLower (t : Int) (decide (r.typ = typOPT)) (decide (r.typ = typSOA)) (r.soaMin : Int) (r.ttl : Int)
      = ((ttlIfLower r t : Nat) : Int) := by
  have ne : ¬ (typSOA = typOPT) := by decide
  unfold dnsmsg_getTTLIfLower ttlIfLower
  by_cases a : r.typ = typOPT
  · simp [a]
  · by_cases b : r.typ = typSOA
    · by_cases c : 0 < r.soaMin ∧ r.soaMin < t
      · have c' : (0 : Int) < r.soaMin ∧ (r.soaMin : Int) < t := by omega
        simp [b, c, c', ne]; omega
      · simp [b, c, ne]; omega
    · simp [a, b]; omega

/-- The simple cache's private copy of `getTTLIfLower` computes the same as `dnsmsg`'s, for all inputs. -/
theorem simple_getTTLIfLower_same (ttl : Int) (opt soa : Bool) (minttl httl : Int) :
    simple_getTTLIfLower ttl opt soa minttl httl = dnsmsg_getTTLIfLower ttl opt soa minttl httl := by
  unfold simple_getTTLIfLower dnsmsg_getTTLIfLower
  cases opt <;> cases soa <;> simp <;> (try split) <;> simp [Int.min_def] <;> (try split) <;> omega

example : dnsmsg_getTTLIfLower 300 false true 60 3600 = 60 ∧ dnsmsg_getTTLIfLower 300 true false 0 5 = 300 := by decide

/-- The model's lifetime of a stored answer (`prepStore`), as a function of the lowest TTL and the rcode. -/
def lifeOf (cfg : Cfg) (low rc : Nat) : Nat :=
  if cfg.override = true ∧ rc ≠ 2 then max (low * 1000000000) cfg.minTTL else low * 1000000000

theorem prepStore_life (cfg : Cfg) (qt : Nat) (m : Msg) :
    (prepStore cfg qt m).2 =
      if findLowestTTL m = 0 ∨ isCacheable qt m = false then none else some (lifeOf cfg (findLowestTTL m) m.rcode) := by
  unfold prepStore lifeOf
  by_cases h1 : findLowestTTL m = 0 ∨ isCacheable qt m = false
  · rw [if_pos h1, if_pos h1]
  · rw [if_neg h1, if_neg h1]
    by_cases h2 : cfg.override = true ∧ m.rcode ≠ rcServFail
    · rw [if_pos h2, if_pos (show cfg.override = true ∧ m.rcode ≠ 2 from h2)]; rfl
    · rw [if_neg h2, if_neg (show ¬ (cfg.override = true ∧ m.rcode ≠ 2) from h2)]; rfl

theorem lifeOf_cast (low rc mn : Nat) (ov : Bool) :
    ((lifeOf ⟨mn, ov⟩ low rc : Nat) : Int) =
      if ov = true ∧ (rc : Int) ≠ 2 then max ((low : Int) * 1000000000) (mn : Int) else (low : Int) * 1000000000 := by
  unfold lifeOf
  by_cases h : ov = true ∧ rc ≠ 2
  · have h' : ov = true ∧ (rc : Int) ≠ 2 := ⟨h.1, by omega⟩
    rw [if_pos h, if_pos h']; dsimp only; omega
  · have h' : ¬ (ov = true ∧ (rc : Int) ≠ 2) := fun x => h ⟨x.1, by omega⟩
    rw [if_neg h, if_neg h']; omega

/-- Expiry the simple cache's `set` passes to the LRU, as the source computes it. -/
def simpleExp (cfg : S_cache_Middleware) (ttl rc : Int) : Int :=
  if cfg.overrideTTL = true ∧ rc ≠ 2 then max (ttl * 1000000000) cfg.cacheMinTTL else ttl * 1000000000
/-- Same for the ECS cache. -/
def ecsExp (mw : S_ecscache_Middleware) (ttl rc : Int) : Int :=
  if mw.overrideTTL = true ∧ rc ≠ 2 then max (ttl * 1000000000) mw.cacheMinTTL else ttl * 1000000000

/-- Simple cache `set`: nothing happens (no call, no error) for a nil middleware, a zero lowest TTL or an
uncacheable message. -/
theorem simple_set_skips (m : Option S_cache_Middleware) (ttl rc : Int) (cacheable : Bool) (key : String)
    (item : S_cache_cacheItem) (res : Option String) (h : m = none ∨ ttl = 0 ∨ cacheable = false) :
    simple_set m ttl cacheable rc key item res = some (none, []) := by
  rcases h with h | h | h <;> cases m <;> simp [simple_set, h]

theorem simple_expiry (cfg : S_cache_Middleware) (ttl rc : Int) (key : String) (item : S_cache_cacheItem)
    (res : Option String) (h0 : ttl ≠ 0) :
    (simple_set (some cfg) ttl true rc key item res).map (fun r => expiryOf r.2) = some (some (toString (simpleExp cfg ttl rc))) := by
  by_cases a : cfg.overrideTTL = true <;> by_cases b : rc = 2 <;>
    simp [simple_set, simpleExp, expiryOf, h0, a, b]

/-- Simple cache `set` = model `prepStore`: for every configuration and message, the source stores iff the model
does, and with the model's lifetime (in nanoseconds). -/
theorem simple_set_tr (cfg : Cfg) (qt : Nat) (m : Msg) (key : String) (item : S_cache_cacheItem) (res : Option String) :
    (simple_set (some ⟨cfg.minTTL, cfg.override⟩) (findLowestTTL m) (isCacheable qt m) m.rcode key item res).map
        (fun r => expiryOf r.2)
      = some ((prepStore cfg qt m).2.map fun (life : Nat) => toString (Int.ofNat life)) := by
  rw [prepStore_life]
  by_cases h : findLowestTTL m = 0 ∨ isCacheable qt m = false
  · rw [if_pos h]
    have h' : (some ⟨cfg.minTTL, cfg.override⟩ : Option S_cache_Middleware) = none ∨ (findLowestTTL m : Int) = 0 ∨
        isCacheable qt m = false := by
      rcases h with h | h
      · exact Or.inr (Or.inl (by omega))
      · exact Or.inr (Or.inr h)
    rw [simple_set_skips _ _ _ _ _ _ _ h']
    rfl
  · rw [if_neg h]
    have h0 : (findLowestTTL m : Int) ≠ 0 := by omega
    have hc : isCacheable qt m = true := by cases c : isCacheable qt m <;> simp_all
    rw [hc, simple_expiry _ _ _ _ _ _ h0, Option.map_some]
    show _ = some (some (toString ((lifeOf cfg (findLowestTTL m) m.rcode : Nat) : Int)))
    rw [lifeOf_cast]
    rfl

theorem ecs_set_skips (mw : S_ecscache_Middleware) (cr : Option S_ecscache_cacheRequest) (dep : Bool) (ttl rc key : Int)
    (cacheable : Bool) (h : ttl = 0 ∨ cacheable = false) :
    ecs_set mw cr dep ttl cacheable rc key = [] := by
  rcases h with h | h <;> simp [ecs_set, h]

theorem ecs_expiry (mw : S_ecscache_Middleware) (cr : Option S_ecscache_cacheRequest) (dep : Bool) (ttl rc key : Int)
    (h0 : ttl ≠ 0) : expiryOf (ecs_set mw cr dep ttl true rc key) = some (toString (ecsExp mw ttl rc)) := by
  cases dep <;> by_cases a : mw.overrideTTL = true <;> by_cases b : rc = 2 <;>
    simp [ecs_set, ecsExp, expiryOf, h0, a, b]

/-- ECS cache `set` = model `prepStore` (same statement as for the simple cache). -/
theorem ecs_set_tr (cfg : Cfg) (qt : Nat) (m : Msg) (cloner : Option S_dnsmsg_Cloner) (cr : Option S_ecscache_cacheRequest)
    (dep : Bool) (key : Int) :
    expiryOf (ecs_set ⟨cloner, cfg.minTTL, cfg.override⟩ cr dep (findLowestTTL m) (isCacheable qt m) m.rcode key)
      = (prepStore cfg qt m).2.map fun (life : Nat) => toString (Int.ofNat life) := by
  rw [prepStore_life]
  by_cases h : findLowestTTL m = 0 ∨ isCacheable qt m = false
  · rw [if_pos h]
    have h' : (findLowestTTL m : Int) = 0 ∨ isCacheable qt m = false := by
      rcases h with h | h
      · exact Or.inl (by omega)
      · exact Or.inr h
    rw [ecs_set_skips _ _ _ _ _ _ _ h']
    rfl
  · rw [if_neg h]
    have h0 : (findLowestTTL m : Int) ≠ 0 := by omega
    have hc : isCacheable qt m = true := by cases c : isCacheable qt m <;> simp_all
    rw [hc, ecs_expiry _ _ _ _ _ _ h0, Option.map_some]
    show _ = some (toString ((lifeOf cfg (findLowestTTL m) m.rcode : Nat) : Int))
    rw [lifeOf_cast]
    rfl

/-- The TTL the source computes when time is left: `uint32(roundDiv(timeLeft, 1s))` is the model's `ecsTTL`. -/
theorem ttl_val (low age : Nat) (hlow : low < 4294967296) (h : 0 < (low : Int) * 1000000000 - age) :
    goWrapU 4294967296 (Agd.Cache.roundDiv ((low : Int) * 1000000000 - age) 1000000000) = ((ecsTTL low age : Nat) : Int) := by
  have hn : (low : Int) * 1000000000 - age = ((low * 1000000000 - age : Nat) : Int) := by omega
  rw [ecsTTL_eq]
  unfold leftRounded sec
  rw [if_pos (by omega), hn, roundDiv_pos, goWrapU_of_range (by omega) (by omega)]

theorem ttl_zero (low age : Nat) (h : ¬ 0 < (low : Int) * 1000000000 - age) : (0 : Int) = ((ecsTTL low age : Nat) : Int) := by
  rw [ecsTTL_eq]
  unfold leftRounded sec
  rw [if_neg (by omega)]
  rfl

/-- ECS `fromCacheItem` = model `ecsTTL`: for every lowest TTL (a `uint32`) and every age, the first thing done is
cloning the cached message (the cache's copy is never written), the clone is what is returned, and every TTL written
into a record of the clone is the model's `ecsTTL low age` — nothing else. -/
theorem fromCacheItem_tr (item : Option S_ecscache_cacheItem) (cloner : Option S_dnsmsg_Cloner) (reqDO : Bool)
    (low age : Nat) (hlow : low < 4294967296) (rcode : Int) (ad : Bool) (resp : String) (tr : List (String × List String))
    (hr : ecs_fromCacheItem item cloner reqDO (low : Int) (age : Int) rcode ad = some (resp, tr)) :
      resp ≠ "nil" ∧ tr.head? = some ("Clone", ["item.msg"]) ∧
      "set rr.Header().Ttl" ∈ names tr ∧
      (∀ e ∈ tr, e.1 = "set rr.Header().Ttl" → e.2 = [toString ((ecsTTL low age : Nat) : Int)]) := by
  by_cases h : 0 < (low : Int) * 1000000000 - age
  · rw [← ttl_val low age hlow h]
    have h' : (age : Int) < low * 1000000000 := by omega
    simp [ecs_fromCacheItem, roundDiv_sec, h'] at hr
    obtain ⟨rfl, rfl⟩ := hr
    simp [names]
  · rw [← ttl_zero low age h]
    have h' : ¬ (age : Int) < low * 1000000000 := by omega
    simp [ecs_fromCacheItem, h'] at hr
    obtain ⟨rfl, rfl⟩ := hr
    simp [names]

example : (4294967295 : Nat) < 4294967296 := by decide

/-- `fromCacheItem` never panics, whatever `FindLowestTTL` and the clock return (also a clock that ran backwards). -/
theorem fromCacheItem_no_panic (item : Option S_ecscache_cacheItem) (cloner : Option S_dnsmsg_Cloner) (reqDO : Bool)
    (low since : Int) (rcode : Int) (ad : Bool) : ecs_fromCacheItem item cloner reqDO low since rcode ad ≠ none := by
  by_cases h : since < low * 1000000000 <;> simp [ecs_fromCacheItem, roundDiv_sec, h]

def toItem (e : Option Entry) (h : String) : Option S_ecscache_cacheItem × Bool := (e.map fun _ => ⟨h⟩, e.isSome)

/-- ECS `get` = model `Ecs.lookup`: with the two caches answering as the model's store does, the source serves from
cache iff the model does, and reports "ECS dependent" iff the entry came from the ECS-aware cache. -/
theorem ecs_get_tr (s : Store) (now : Nat) (r : Req) (mw : S_ecscache_Middleware) (k1 k2 : Int)
    (resp : String) (dep : Bool) (tr : List (String × List String))
    (h : ecs_get mw (some ⟨Ecs.host r, r.qtype, r.qclass, r.do_, r.declined⟩) k1
        (toItem (s.live now (Ecs.keyNo r)) (Ecs.host r)) k2 (toItem (s.live now (Ecs.keyDep r)) (Ecs.host r)) = some (resp, dep, tr)) :
      (resp ≠ "nil" ↔ (Ecs.lookup s now r).isSome) ∧
      (dep = true ↔ (s.live now (Ecs.keyNo r)).isNone ∧ r.declined = false ∧ (s.live now (Ecs.keyDep r)).isSome) := by
  unfold Ecs.lookup
  cases h1 : s.live now (Ecs.keyNo r) <;> cases h2 : s.live now (Ecs.keyDep r) <;> cases h3 : r.declined <;>
    simp [ecs_get, toItem, h1, h2, h3] at h <;> obtain ⟨rfl, rfl, rfl⟩ := h <;> simp

/-! ## Part 2 — clauses of the property, on the translated code -/

/-- Only complete answers are cacheable: not truncated, exactly one question, and NOERROR (then the verdict of
`isCacheableNOERROR`), NXDOMAIN or SERVFAIL — nothing else, for both caches. -/
theorem isCacheable_only_complete (tc : Bool) (nq rc : Int) (noerr : Bool) :
    ecs_isCacheable tc nq rc noerr = true ↔ tc = false ∧ nq = 1 ∧ (rc = 0 ∧ noerr = true ∨ rc = 3 ∨ rc = 2) := by
  unfold ecs_isCacheable
  cases tc <;> by_cases a : nq = 1 <;> by_cases b : rc = 0 <;> by_cases c : rc = 3 <;> by_cases d : rc = 2 <;>
    simp [a, b, c, d] <;> omega

/-- `getTTLIfLower` never raises the running minimum, and never returns more than the record's own TTL unless the
record is an OPT pseudo-record. -/
theorem getTTLIfLower_le (ttl : Int) (opt soa : Bool) (minttl httl : Int) :
    dnsmsg_getTTLIfLower ttl opt soa minttl httl ≤ ttl ∧ (opt = false → dnsmsg_getTTLIfLower ttl opt soa minttl httl ≤ httl) := by
  unfold dnsmsg_getTTLIfLower
  cases opt <;> cases soa <;> simp <;> (try split) <;> omega

/-- `itemFromCache` asks the cache for exactly the given key; a miss is a miss. -/
theorem itemFromCache_miss (mw : S_ecscache_Middleware) (key : Int) (cr : Option S_ecscache_cacheRequest)
    (item : Option S_ecscache_cacheItem) :
    ecs_itemFromCache mw key cr (item, false) = some (none, false, [("Get", [toString key])]) := by
  simp [ecs_itemFromCache]

/-- An entry is returned only if its stored host equals the request's host: an entry cached for a different name
(a collision of the 64-bit key) is never served. -/
theorem itemFromCache_hit (mw : S_ecscache_Middleware) (key : Int) (cr : S_ecscache_cacheRequest)
    (item : S_ecscache_cacheItem) :
    ecs_itemFromCache mw key (some cr) (some item, true) =
      some (if item.host = cr.host then (some item, true, [("Get", [toString key])])
            else (none, false, [("Get", [toString key])])) := by
  by_cases h : item.host = cr.host <;> simp [ecs_itemFromCache, h]

/-- `itemFromCache` panics exactly when the cache reports a hit with a nil item, or the request data is nil on a hit. -/
theorem itemFromCache_no_panic (mw : S_ecscache_Middleware) (key : Int) (cr : Option S_ecscache_cacheRequest)
    (g : Option S_ecscache_cacheItem × Bool) :
    ecs_itemFromCache mw key cr g ≠ none ↔ (g.2 = true → g.1 ≠ none ∧ cr ≠ none) := by
  obtain ⟨i, ok⟩ := g
  cases ok <;> cases i <;> cases cr <;> simp [ecs_itemFromCache] <;> split <;> simp

/-- Simple cache `set`, storing case: exactly one `SetWithExpire`, last, under the key of the message, with lifetime
`ttl·1s` — raised to the configured minimum only when the override is on and the answer is not SERVFAIL; `setMinTTL`
is called (first, with that lifetime in whole seconds) exactly in that case; the cache's error is returned. -/
theorem simple_set_stores (cfg : S_cache_Middleware) (ttl rc : Int) (key : String) (item : S_cache_cacheItem)
    (res : Option String) (h0 : ttl ≠ 0) :
    ∃ tr, simple_set (some cfg) ttl true rc key item res = some (res, tr) ∧
      tr.getLast? = some ("SetWithExpire", [key, "_", toString (simpleExp cfg ttl rc)]) ∧
      (names tr).count "SetWithExpire" = 1 ∧
      (if cfg.overrideTTL = true ∧ rc ≠ 2 then
          tr.head? = some ("setMinTTL", ["_", toString (goWrapU 4294967296 ((simpleExp cfg ttl rc).tdiv 1000000000))])
        else "setMinTTL" ∉ names tr) := by
  by_cases a : cfg.overrideTTL = true <;> by_cases b : rc = 2 <;>
    simp [simple_set, simpleExp, names, h0, a, b]

/-- SERVFAIL answers are never kept longer than their (capped) lowest TTL, whatever the override says. -/
theorem servfail_not_overridden (cfg : S_cache_Middleware) (mw : S_ecscache_Middleware) (ttl : Int) :
    simpleExp cfg ttl 2 = ttl * 1000000000 ∧ ecsExp mw ttl 2 = ttl * 1000000000 := by
  simp [simpleExp, ecsExp]

/-- Simple cache `set` never panics. -/
theorem simple_set_no_panic (m : Option S_cache_Middleware) (ttl rc : Int) (cacheable : Bool) (key : String)
    (item : S_cache_cacheItem) (res : Option String) :
    simple_set m ttl cacheable rc key item res ≠ none := by
  cases m with
  | none => simp [simple_set]
  | some cfg =>
    by_cases h : ttl = 0 ∨ cacheable = false
    · rw [simple_set_skips _ _ _ _ _ _ _ (Or.inr h)]; simp
    · have h0 : ttl ≠ 0 := fun e => h (Or.inl e)
      have hc : cacheable = true := by cases cacheable <;> simp_all
      subst hc
      obtain ⟨tr, e, _⟩ := simple_set_stores cfg ttl rc key item res h0
      rw [e]; simp

/-- ECS cache `set`, storing case: one `SetWithExpire`, last, into `mw.ecsCache` iff the answer is ECS dependent
(else `mw.cache`), under the key computed *with that same flag*, of a clone made before, with the lifetime `ecsExp`;
`SetMinTTL` first and only when the override applies. -/
theorem ecs_set_stores (mw : S_ecscache_Middleware) (cr : Option S_ecscache_cacheRequest) (dep : Bool) (ttl rc key : Int)
    (h0 : ttl ≠ 0) :
    let tr := ecs_set mw cr dep ttl true rc key
    tr.getLast? = some ("SetWithExpire",
        [if dep then "mw.ecsCache" else "mw.cache", toString key, "_", toString (ecsExp mw ttl rc)]) ∧
      (names tr).count "SetWithExpire" = 1 ∧
      ("toCacheKey", ["_", toString dep]) ∈ tr ∧ (names tr).count "toCacheKey" = 1 ∧
      "Clone" ∈ names tr.dropLast ∧
      (if mw.overrideTTL = true ∧ rc ≠ 2 then
          tr.head? = some ("SetMinTTL", ["_", toString (goWrapU 4294967296 ((ecsExp mw ttl rc).tdiv 1000000000))])
        else "SetMinTTL" ∉ names tr) := by
  cases dep <;> by_cases a : mw.overrideTTL = true <;> by_cases b : rc = 2 <;>
    simp [ecs_set, ecsExp, names, h0, a, b]

/-- ECS `get`: a hit in the ECS-independent cache is served as "not ECS dependent" and the ECS-aware cache is not
even consulted. -/
theorem get_noecs_hit (mw : S_ecscache_Middleware) (cr : Option S_ecscache_cacheRequest) (k1 k2 : Int)
    (i1 : Option S_ecscache_cacheItem) (g2 : Option S_ecscache_cacheItem × Bool)
    (resp : String) (dep : Bool) (tr : List (String × List String))
    (h : ecs_get mw cr k1 (i1, true) k2 g2 = some (resp, dep, tr)) :
    resp ≠ "nil" ∧ dep = false ∧ ("itemFromCache", ["_", "mw.cache", toString k1, "_"]) ∈ tr ∧
      consults "mw.ecsCache" tr = false := by
  simp [ecs_get] at h
  obtain ⟨rfl, rfl, rfl⟩ := h
  simp [consults]

/-- A client that declined ECS (zero-length prefix) is never served from the ECS-aware cache. -/
theorem get_declined_miss (mw : S_ecscache_Middleware) (cr : S_ecscache_cacheRequest) (k1 k2 : Int)
    (i1 : Option S_ecscache_cacheItem) (g2 : Option S_ecscache_cacheItem × Bool) (hd : cr.isECSDeclined = true)
    (resp : String) (dep : Bool) (tr : List (String × List String))
    (h : ecs_get mw (some cr) k1 (i1, false) k2 g2 = some (resp, dep, tr)) :
    resp = "nil" ∧ dep = false ∧ consults "mw.ecsCache" tr = false := by
  simp [ecs_get, hd] at h
  obtain ⟨rfl, rfl, rfl⟩ := h
  simp [consults]

/-- Otherwise the ECS-aware cache is consulted second, under the key computed with `respIsECSDependent = true`, and
its verdict is the result. -/
theorem get_ecs_lookup (mw : S_ecscache_Middleware) (cr : S_ecscache_cacheRequest) (k1 k2 : Int)
    (i1 i2 : Option S_ecscache_cacheItem) (ok2 : Bool) (hd : cr.isECSDeclined = false)
    (resp : String) (dep : Bool) (tr : List (String × List String))
    (h : ecs_get mw (some cr) k1 (i1, false) k2 (i2, ok2) = some (resp, dep, tr)) :
    dep = ok2 ∧ (resp = "nil" ↔ ok2 = false) ∧
      ("itemFromCache", ["_", "mw.cache", toString k1, "_"]) ∈ tr ∧
      ("toCacheKey", ["_", "true"]) ∈ tr ∧ ("itemFromCache", ["_", "mw.ecsCache", toString k2, "_"]) ∈ tr := by
  cases ok2 <;> simp [ecs_get, hd] at h <;> obtain ⟨rfl, rfl, rfl⟩ := h <;> simp [ts_true]

/-- `get` panics only on a nil cache request after a miss in the first cache. -/
theorem get_no_panic (mw : S_ecscache_Middleware) (cr : Option S_ecscache_cacheRequest) (k1 k2 : Int)
    (g1 g2 : Option S_ecscache_cacheItem × Bool) :
    ecs_get mw cr k1 g1 k2 g2 ≠ none ↔ (g1.2 = true ∨ cr ≠ none) := by
  obtain ⟨i1, ok1⟩ := g1
  cases ok1 <;> cases cr <;> simp [ecs_get]
  all_goals (split <;> (try split) <;> exact Option.some_ne_none _)

/-- `writeUpstreamResponse`, upstream answer with readable ECS data: hop-to-hop data is removed before the answer is
stored, it is stored (once) before the AD bit is masked for this client, with the flag `respIsECSDependent(scope, …)`
returned; for an ECS-independent answer the request's subnet is reset to the zero prefix before the key is computed. -/
theorem upstream_store_order (mw : S_ecscache_Middleware) (ri : S_agd_RequestInfo) (cr : S_ecscache_cacheRequest)
    (fam scope : Int) (dep : Bool) (qn : String) (ad : Bool) (e2 e4 e5 e6 e7 : Option String)
    (err : Option String) (tr : List (String × List String))
    (h : ecs_writeUpstreamResponse mw (some ri) (some cr) fam ((), scope, none) e2 dep qn ad e4 e5 e6 e7 = some (err, tr)) :
    before "rmHopToHopData" "set" (names tr) = true ∧ before "set" "setRespAD" (names tr) = true ∧
      (names tr).count "set" = 1 ∧
      ("respIsECSDependent", [toString scope, qn]) ∈ tr ∧ ("set", ["_", "_", toString dep]) ∈ tr ∧
      (dep = false → before "set cr.subnet" "set" (names tr) = true) := by
  cases dep <;> cases hE : ri.ECS <;> cases e4 <;> cases e6 <;>
    simp [ecs_writeUpstreamResponse, hE] at h <;> obtain ⟨rfl, rfl⟩ := h <;> simp [names, before]

/-- An upstream answer whose ECS option cannot be read is neither stored nor written. -/
theorem upstream_bad_ecs_not_stored (mw : S_ecscache_Middleware) (ri : Option S_agd_RequestInfo)
    (cr : Option S_ecscache_cacheRequest) (fam scope : Int) (dep : Bool) (qn : String) (ad : Bool)
    (e e2 e4 e5 e6 e7 : Option String) (he : e ≠ none)
    (err : Option String) (tr : List (String × List String))
    (h : ecs_writeUpstreamResponse mw ri cr fam ((), scope, e) e2 dep qn ad e4 e5 e6 e7 = some (err, tr)) :
    err = e2 ∧ "set" ∉ names tr ∧ "WriteMsg" ∉ names tr := by
  cases e with
  | none => exact absurd rfl he
  | some x =>
    simp [ecs_writeUpstreamResponse] at h
    obtain ⟨rfl, rfl⟩ := h
    simp [names]

/-- `writeUpstreamResponse` never panics when request info and cache request are non-nil. -/
theorem upstream_no_panic (mw : S_ecscache_Middleware) (ri : S_agd_RequestInfo) (cr : S_ecscache_cacheRequest)
    (fam : Int) (g : Unit × Int × Option String) (dep : Bool) (qn : String) (ad : Bool) (e2 e4 e5 e6 e7 : Option String) :
    ecs_writeUpstreamResponse mw (some ri) (some cr) fam g e2 dep qn ad e4 e5 e6 e7 ≠ none := by
  obtain ⟨u, scope, e⟩ := g
  cases e <;> cases dep <;> cases hE : ri.ECS <;> cases e4 <;> cases e6 <;> simp [ecs_writeUpstreamResponse, hE]

/-- Concrete run: TTL 2 s cached 1.6 s ago is served with TTL 0 (rounded), 1.4 s ago with TTL 1. -/
example : (ecs_fromCacheItem none none false 2 1600000000 0 false).map (fun r => r.2.filter (·.1 == "set rr.Header().Ttl"))
      = some [("set rr.Header().Ttl", ["0"])] ∧
    (ecs_fromCacheItem none none false 2 1400000000 0 false).map (fun r => r.2.filter (·.1 == "set rr.Header().Ttl"))
      = some [("set rr.Header().Ttl", ["1"])] := by decide

/-! ## Round 4: production wiring (`internal/cmd/cache.go`) and the location glue (`locFromReq`) -/

/-- `cacheConfig.toInternal`, all validated inputs: the minimum TTL is passed on unchanged (a
`time.Duration` on both sides — no unit conversion), the override switch, both counts go to the
fields of the same meaning, and the type is `none` (1) iff `size` is 0, else `simple` (2) iff the
file says `simple`, else ECS (3). -/
theorem cache_toInternal_tr (c : S_cmd_cacheConfig) (o : S_cmd_ttlOverride) (h : c.TTLOverride = some o) :
    cache_toInternal c = some (some
      { MinTTL := o.Min.Duration, ECSCount := c.ECSSize, NoECSCount := c.Size,
        Type' := if c.Size = 0 then 1 else if c.Type' = "simple" then 2 else 3,
        OverrideCacheTTL := o.Enabled }) := by
  unfold cache_toInternal
  by_cases h0 : c.Size = 0
  · simp [h, h0]
  · by_cases h1 : c.Type' = "simple" <;> simp [h, h0, h1]

/-- It dereferences `c.TTLOverride` without a check: a missing section is a panic — -/
theorem cache_toInternal_panic (c : S_cmd_cacheConfig) (h : c.TTLOverride = none) : cache_toInternal c = none := by
  unfold cache_toInternal
  by_cases h0 : c.Size = 0
  · simp [h, h0]
  · by_cases h1 : c.Type' = "simple" <;> simp [h, h0, h1]

/-- — which `cacheConfig.validate` excludes: an accepted configuration has the section, a positive
minimum, a known type, a non-negative size and, for the ECS cache, a positive ECS size. -/
theorem cache_validate_ok (c : S_cmd_cacheConfig) (h : cache_validate (some c) = some none) :
    ∃ o, c.TTLOverride = some o ∧ 0 < o.Min.Duration ∧ (c.Type' = "simple" ∨ c.Type' = "ecs") ∧ 0 ≤ c.Size ∧
      (c.Type' = "ecs" → 0 < c.ECSSize) := by
  unfold cache_validate at h
  simp only [Option.isNone_some, Bool.false_eq_true, ↓reduceIte, Option.bind_some] at h
  cases ho : c.TTLOverride with
  | none =>
    rw [ho] at h
    by_cases h1 : c.Type' = "simple" <;> by_cases h2 : c.Type' = "ecs" <;> by_cases h3 : c.Size < 0 <;>
      by_cases h4 : c.ECSSize ≤ 0 <;> simp [h1, h2, h3, h4, ttl_validate] at h
  | some o =>
    rw [ho] at h
    refine ⟨o, rfl, ?_⟩
    by_cases h1 : c.Type' = "simple" <;> by_cases h2 : c.Type' = "ecs" <;> by_cases h3 : c.Size < 0 <;>
      by_cases h4 : c.ECSSize ≤ 0 <;> by_cases h5 : o.Min.Duration ≤ 0 <;>
      simp [h1, h2, h3, h4, h5, ttl_validate] at h ⊢ <;> omega

/-- The model of the wiring (`Yaml.kind`, `Yaml.cfg`, what the driver's `wire` answers) is what the
translated `toInternal` computes. -/
theorem wiring_model (c : S_cmd_cacheConfig) (o : S_cmd_ttlOverride) (h : c.TTLOverride = some o)
    (hs : 0 ≤ c.Size) (hm : 0 ≤ o.Min.Duration) :
    ∃ r, cache_toInternal c = some (some r) ∧
      r.Type' = ((Yaml.kind ⟨c.Type' = "simple", c.Size.toNat, c.ECSSize.toNat, o.Min.Duration.toNat, o.Enabled⟩ : Nat) : Int) + 1 ∧
      r.MinTTL = ((Yaml.cfg ⟨c.Type' = "simple", c.Size.toNat, c.ECSSize.toNat, o.Min.Duration.toNat, o.Enabled⟩).minTTL : Int) ∧
      r.OverrideCacheTTL = (Yaml.cfg ⟨c.Type' = "simple", c.Size.toNat, c.ECSSize.toNat, o.Min.Duration.toNat, o.Enabled⟩).override := by
  refine ⟨_, cache_toInternal_tr c o h, ?_, ?_, rfl⟩
  · unfold Yaml.kind
    by_cases h0 : c.Size = 0
    · simp [h0]
    · have : c.Size.toNat ≠ 0 := by omega
      by_cases h1 : c.Type' = "simple" <;> simp [h0, h1, this]
  · show o.Min.Duration = ((o.Min.Duration.toNat : Nat) : Int)
    omega

/-- `locFromReq` never panics on a non-nil request info and returns a non-nil location. -/
theorem locFromReq_no_panic (ri : S_agd_RequestInfo) : ∃ l, locFromReq (some ri) = some (some l) := by
  unfold locFromReq
  cases he : ri.ECS with
  | none =>
    cases hl : ri.Location with
    | none => simp [he, hl]
    | some l => simp [he, hl]
  | some e =>
    cases hel : e.Location with
    | none =>
      cases hl : ri.Location with
      | none => simp [he, hel, hl]
      | some l => simp [he, hel, hl]
    | some el =>
      cases hl : ri.Location with
      | none => by_cases hc : el.Country = "" <;> simp [he, hel, hl, hc]
      | some l => by_cases hc : el.Country = "" <;> simp [he, hel, hl, hc]

/-- The country `locFromReq` returns: that of the ECS option's location if there is an option with
a location with a country, else that of the connection's location, else none (`Ecs.ctryOf`). -/
def ctrySpec (ri : S_agd_RequestInfo) : String :=
  match ri.ECS.bind (·.Location) with
  | some el => if el.Country ≠ "" then el.Country else (ri.Location.map (·.Country)).getD ""
  | none => (ri.Location.map (·.Country)).getD ""

theorem locFromReq_country (ri : S_agd_RequestInfo) :
    ∃ l, locFromReq (some ri) = some (some l) ∧ l.Country = ctrySpec ri := by
  unfold locFromReq ctrySpec
  cases he : ri.ECS with
  | none =>
    cases hl : ri.Location with
    | none => simp [he, hl]
    | some l => simp [he, hl]
  | some e =>
    cases hel : e.Location with
    | none =>
      cases hl : ri.Location with
      | none => simp [he, hel, hl]
      | some l => simp [he, hel, hl]
    | some el =>
      cases hl : ri.Location with
      | none => by_cases hc : el.Country = "" <;> simp [he, hel, hl, hc]
      | some l => by_cases hc : el.Country = "" <;> simp [he, hel, hl, hc]

end Agd.Tie.TrC04
