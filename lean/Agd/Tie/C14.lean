import Agd.Gen.C14
/-! Tie theorems for C14: the source facts the models `ProfileDB` and `ProfileCache` were written
against still hold in the repository. -/
namespace Agd.Tie.C14
open Agd.Gen.C14

/-- `removeDevice` deletes only when the device is no longer attached (`applyCleanup (.dev _)`). -/
theorem remove_device_guard_src : remove_device_guard =
    "d != nil" := by decide

/-- `removeLinkedIP` keeps the entry of a device that still has this linked IP. -/
theorem remove_linked_guard_src : remove_linked_guard =
    "d != nil && d.LinkedIP == ip" := by decide

/-- `removeDedicatedIP` keeps the entry of a device that still has this dedicated IP. -/
theorem remove_dedicated_guard_src : remove_dedicated_guard =
    "d != nil && slices.Contains(d.DedicatedIPs, ip)" := by decide

/-- `removeHumanID` keeps the entry of a device that still has this human id in this profile. -/
theorem remove_human_guard_src : remove_human_guard =
    "d != nil && d.HumanIDLower == k.lower && p.ID == k.profile" := by decide

/-- `attachedDevice`: index entry, profile record listing the device, device record. -/
theorem attached_conds_src : attached_conds =
    "!ok | !ok || !slices.Contains(p.DeviceIDs, id) | d == nil" := by decide

/-- `ProfileByHumanID` re-checks the human id and the profile of the device found. -/
theorem human_rechecks_src : human_rechecks =
    "!ok | !ok | err != nil | errors.Is(err, ErrDeviceNotFound) | humanID != d.HumanIDLower || p.ID != id" := by decide

/-- `ProfileByLinkedIP` re-checks the linked IP of the device found. -/
theorem linked_rechecks_src : linked_rechecks =
    "!ok | err != nil | errors.Is(err, ErrDeviceNotFound) | d.LinkedIP == (netip.Addr{}) | d.LinkedIP != ip" := by decide

/-- `ProfileByDedicatedIP` re-checks the dedicated IPs of the device found. -/
theorem dedicated_rechecks_src : dedicated_rechecks =
    "!ok | err != nil | errors.Is(err, ErrDeviceNotFound) | !slices.Contains(d.DedicatedIPs, ip)" := by decide

/-- where `profileByDeviceID` starts `removeDevice`. -/
theorem bydev_cleanups_src : bydev_cleanups =
    "removeDevice,removeDevice" := by decide

/-- where `ProfileByLinkedIP` starts `removeLinkedIP`. -/
theorem linked_cleanups_src : linked_cleanups =
    "profileByDeviceID,removeLinkedIP,removeLinkedIP" := by decide

/-- where `ProfileByDedicatedIP` starts `removeDedicatedIP`. -/
theorem dedicated_cleanups_src : dedicated_cleanups =
    "profileByDeviceID,removeDedicatedIP,removeDedicatedIP" := by decide

/-- where `ProfileByHumanID` starts `removeHumanID`. -/
theorem human_cleanups_src : human_cleanups =
    "profileByDeviceID,removeHumanID,removeHumanID" := by decide

/-- `setProfiles` clears all six maps, then calls `setDevices`. -/
theorem set_profiles_clears_src : set_profiles_clears =
    "clear,clear,clear,clear,clear,clear,setDevices" := by decide

/-- the maps are cleared exactly on a full sync. -/
theorem set_profiles_conds_src : set_profiles_conds =
    "isFullSync | p.Deleted" := by decide

/-- `setDevices`: linked IP only when set, human id only when set and the profile is known. -/
theorem set_devices_conds_src : set_devices_conds =
    "d.LinkedIP != (netip.Addr{}) | d.HumanIDLower == \"\" | !ok" := by decide

/-- `loadFileCache` ignores a version error, a missing file, and a cache without profiles or devices. -/
theorem load_cache_conds_src : load_cache_conds =
    "err != nil | errors.Is(err, internal.CacheVersionError) | c == nil | profNum == 0 || devNum == 0" := by decide

/-- the cache is loaded like a full sync. -/
theorem load_cache_set_src : load_cache_set =
    "ctx, c.Profiles, c.Devices, true" := by decide

/-- `FileCacheVersion`. -/
theorem cache_version_src : cache_version =
    "15" := by decide

/-- `Storage.Load` rejects another version. -/
theorem version_check_src : version_check =
    "err != nil | errors.Is(err, os.ErrNotExist) | err != nil | fc.Version != internal.FileCacheVersion" := by decide

/-- `Storage.Store` writes through `renameio.WriteFile`. -/
theorem store_write_src : store_write =
    "s.path, b, 0o600" := by decide

/-- an unset DoH password hash is read back as the allow-all authenticator. -/
theorem doh_password_unset_src : doh_password_unset =
    "agdpasswd.AllowAuthenticator{}, nil" := by decide

/-- disabled authentication settings are not written. -/
theorem auth_to_pb_cond_src : auth_to_pb_cond =
    "s == nil || !s.Enabled" := by decide

/-- a disabled or absent rate limiter is the global one. -/
theorem ratelimiter_from_pb_cond_src : ratelimiter_from_pb_cond =
    "x == nil || !x.Enabled" := by decide

set_option maxRecDepth 8000 in
/-- fields of `agd.Profile` carried by `ProfileCache.Profile`. -/
theorem profile_fields_src : profile_fields =
    "FilterConfig,Access,BlockingMode,Ratelimiter,ID,DeviceIDs,FilteredResponseTTL,AutoDevicesEnabled,BlockChromePrefetch,BlockFirefoxCanary,BlockPrivateRelay,Deleted,FilteringEnabled,IPLogEnabled,QueryLogEnabled" := by decide

/-- fields of `agd.Device` carried by `ProfileCache.Device`. -/
theorem device_fields_src : device_fields =
    "Auth,ID,LinkedIP,Name,HumanIDLower,DedicatedIPs,FilteringEnabled" := by decide

/-- fields of `agd.AuthSettings`. -/
theorem auth_fields_src : auth_fields =
    "PasswordHash,Enabled,DoHAuthOnly" := by decide

/-- fields of `internal.FileCache`. -/
theorem file_cache_fields_src : file_cache_fields =
    "SyncTime,Profiles,Devices,Version" := by decide

/-- `fetchProfiles` starts from the database's synchronisation point … -/
theorem fetch_sync_time_init_src : fetch_sync_time_init =
    "db.syncTime" := by decide

/-- … replaces it by the zero time for a full synchronisation (`reqTime`) … -/
theorem fetch_sync_time_src : fetch_sync_time =
    "time.Time{}" := by decide

/-- … and sends it to the storage. -/
theorem fetch_request_src : fetch_request =
    "ctx, &StorageProfilesRequest{ SyncTime: syncTime, }" := by decide

/-- the zero time is used exactly on a full synchronisation; an error leaves `db.syncTime` alone. -/
theorem fetch_conds_src : fetch_conds =
    "isFullSync | err == nil | isFullSync | errors.Is(err, context.DeadlineExceeded)" := by decide

/-- `Refresh` takes the response's sync time as the new synchronisation point (`applySync`). -/
theorem refresh_sync_time_src : refresh_sync_time =
    "resp.SyncTime" := by decide

set_option maxRecDepth 8000 in
/-- the cache file receives the response of the full synchronisation and its sync time. -/
theorem refresh_store_src : refresh_store =
    "ctx, &internal.FileCache{ SyncTime: resp.SyncTime, Profiles: profiles, Devices: devices, Version: internal.FileCacheVersion, }" := by decide

/-- `Refresh`: fetch, then apply, then store (a failed fetch returns before the other two). -/
theorem refresh_order_src : refresh_order =
    "fetchProfiles,setProfiles,Store" := by decide

/-- `loadFileCache` takes the cache's sync time as the synchronisation point (`loadCache`). -/
theorem load_cache_sync_time_src : load_cache_sync_time =
    "c.SyncTime, c.SyncTime" := by decide

/-- `backendpb`: absent or disabled rate-limit settings mean the global limiter (`backendRate`). -/
theorem bp_rate_cond_src : bp_rate_cond = "x == nil || !x.Enabled" := by decide

/-- `backendpb`: absent or disabled access settings mean the empty access profile (`backendAccess`). -/
theorem bp_access_cond_src : bp_access_cond = "x == nil || !x.Enabled" := by decide

/-- `backendpb`: absent authentication settings are the disabled, allow-all ones (`backendAuth`). -/
theorem bp_auth_conds_src : bp_auth_conds = "x == nil | err != nil" := by decide

/-- `backendpb`: an unset DoH password hash is the allow-all authenticator. -/
theorem bp_doh_password_unset_src : bp_doh_password_unset = "agdpasswd.AllowAuthenticator{}, nil" := by decide

/-- `devicesToInternal` skips a device exactly when its conversion fails … -/
theorem bp_devices_conds_src : bp_devices_conds = "l == 0 | err != nil | d != nil" := by decide

/-- … and appends id and device together, after the conversion (`acceptedDevs`). -/
theorem bp_devices_calls_src : bp_devices_calls = "toInternal,append,append" := by decide

/-- the profile's `DeviceIDs` are the ids `devicesToInternal` returned (`convProfile`). -/
theorem bp_profile_device_ids_src : bp_profile_device_ids =
    "devicesToInternal(ctx, x.Devices, bindSet, errColl, logger, mtrc)" := by decide

/-- `ProfileStorage.Profiles`: convert, append profile and devices, read the trailer (`respOfWire`). -/
theorem bp_profiles_calls_src : bp_profiles_calls = "toInternal,append,append,syncTimeFromTrailer" := by decide

/-- the `sync_time` trailer is in milliseconds and is not rounded. -/
theorem bp_sync_time_unit_src : bp_sync_time_unit =
    "time.Unix(0, syncTimeMs*time.Millisecond.Nanoseconds()), nil" := by decide

/-- `Refresh` returns early only on a failed storage request; the store error is returned after the
data was applied (`Op.syncNS`). -/
theorem refresh_conds_src : refresh_conds = "!isSuccess | err != nil | isFullSync | err != nil" := by decide

/-! The binary form of addresses (`Addr.marshal` / `Addr.unmarshal` of `Model/ProfileCache.lean`): of all
the conversions `netip` offers, the cache writes `MarshalBinary` (the only one that keeps the zone in
bytes) and reads `UnmarshalBinary`; `backendpb` reads the wire with the same decoder. -/

/-- `ipToBytes` is `netip.Addr.MarshalBinary` (`Addr.marshal`), not `AsSlice` / `As16` / `Unmap`… -/
theorem cache_ip_encoder_src : cache_ip_encoder = "MarshalBinary" := by decide

theorem cache_ips_encoder_src : cache_ips_encoder = "ipToBytes" := by decide

/-- `devicesToProtobuf`: linked IP through `ipToBytes`, dedicated IPs through `ipsToByteSlices`. -/
theorem cache_device_ip_encoders_src : cache_device_ip_encoders = "ipToBytes,ipsToByteSlices" := by decide

/-- `(*Device).toInternal`: `UnmarshalBinary` and `ByteSlicesToIPs`, nothing that normalises. -/
theorem cache_device_ip_decoders_src : cache_device_ip_decoders = "UnmarshalBinary,ByteSlicesToIPs" := by decide

theorem cache_custom_ip_encoders_src : cache_custom_ip_encoders = "ipsToByteSlices,ipsToByteSlices" := by decide

theorem cache_custom_ip_decoders_src : cache_custom_ip_decoders = "ByteSlicesToIPs,ByteSlicesToIPs" := by decide

/-- `agdprotobuf.ByteSlicesToIPs` is `UnmarshalBinary` per element (`addrsFromPb`). -/
theorem byteslices_decoder_src : byteslices_decoder = "UnmarshalBinary" := by decide

/-- `backendpb.(*DeviceSettings).toInternal` reads the linked IP with `UnmarshalBinary` (`FromWire`). -/
theorem backend_linked_ip_decoder_src : backend_linked_ip_decoder = "UnmarshalBinary" := by decide

theorem backend_dedicated_ip_decoder_src : backend_dedicated_ip_decoder = "ByteSlicesToIPs" := by decide

/-! Production wiring (`internal/cmd`): which configured value reaches which component.  The long
literals are hoisted into `def`s. -/

def wantProfiledbNewArgs : String := "&profiledb.Config{ Logger: b.baseLogger.With(slogutil.KeyPrefix, \"profiledb\"), Storage: strg, ErrColl: b.errColl, Metrics: profDBMtrc, CacheFilePath: b.env.ProfilesCachePath, FullSyncIvl: c.FullRefreshIvl.Duration, FullSyncRetryIvl: c.FullRefreshRetryIvl.Duration, ResponseSizeEstimate: respSzEst, }"
def wantProfileStorageArgs : String := "&backendpb.ProfileStorageConfig{ BindSet: b.bindSet, ErrColl: b.errColl, Logger: b.baseLogger.With(slogutil.KeyPrefix, \"profilestorage\"), GRPCMetrics: b.backendGRPCMtrc, Metrics: backendProfileDBMtrc, Endpoint: apiURL, APIKey: b.env.ProfilesAPIKey, ResponseSizeEstimate: respSzEst, MaxProfilesSize: b.env.ProfilesMaxRespSize, }"
def wantRefreshWorkerArgs : String := "&agdservice.RefreshWorkerConfig{ Context: newCtxWithTimeoutCons(timeout), Logger: b.baseLogger.With(slogutil.KeyPrefix, \"profiledb_refresh\"), Refresher: profDB, Interval: c.RefreshIvl.Duration, RefreshOnShutdown: false, RandomizeStart: true, }"

/-- `initProfileDB`: PROFILES_CACHE_PATH is the cache file, `full_refresh_interval` /
`full_refresh_retry_interval` are the two intervals of `needsFullSync` (not swapped, not the refresh
interval), and the database gets the response-size estimate `respSzEst`. -/
theorem builder_profiledb_new_args_src : builder_profiledb_new_args = wantProfiledbNewArgs := by rfl

/-- … the SAME `respSzEst` the backend storage gets (`estimate_wiring_necessary`), the bind set and
PROFILES_MAX_RESP_SIZE. -/
theorem builder_estimate_wiring_src : builder_profile_storage_args = wantProfileStorageArgs ∧
    builder_estimate_source = "b.conf.RateLimit.ResponseSizeEstimate" := ⟨by rfl, by decide⟩

/-- The refresh worker of the database runs under contexts made for `backend.timeout` (not for the
refresh interval) by `newCtxWithTimeoutCons`, every `refresh_interval`. -/
theorem builder_refresh_worker_args_src : builder_refresh_worker_args = wantRefreshWorkerArgs ∧
    builder_timeout_source = "c.Timeout.Duration" ∧
    builder_initial_refresh_args = "ctx, b.logger, profDB, timeout" := ⟨by rfl, by decide, by decide⟩

/-- `newCtxWithTimeoutCons` creates its contexts with `ctxWithOptionalTimeout` only (`ctxDeadline`),
never with `context.WithTimeout` directly. -/
theorem ctx_cons_calls_src : ctx_cons_calls = "ctxWithOptionalTimeout" := by decide

/-- `profiledb.New` hands the configured estimate to the file-cache storage, whose `Load` hands it
to `toInternal` (`fromPb est`). -/
theorem cache_estimate_path_src : profiledb_new_cache_args = "logger, c.CacheFilePath, c.ResponseSizeEstimate" ∧
    filecache_load_return = "toInternal(fc, s.respSzEst)" := by decide

/-- Round 5.  `(*ScheduleSettings).toInternal` reads `weekly_range` and its seven days (Sunday
first, the order of `time.Weekday`) through the generated nil-safe getters only — an absent message
is the default one (`backendSchedule`; the pinned tree read `x.WeeklyRange` and `w.Sun …` directly,
`backendScheduleOld`) — and its only early exits are the absent schedule, the unknown time zone,
an absent day (skipped) and an invalid day. -/
theorem backend_schedule_getters_src : backend_schedule_week_source = "x.GetWeeklyRange()" ∧
    backend_schedule_days_source =
      "[]*DayRange{ w.GetSun(), w.GetMon(), w.GetTue(), w.GetWed(), w.GetThu(), w.GetFri(), w.GetSat(), }" ∧
    backend_schedule_conds = "x == nil | err != nil | d == nil | err != nil" := by decide

/-- `refreshInALoop` recovers from a panic with `RecoverAndLog` (not `RecoverAndExit`), deferred
for the whole loop (`workerEvs`: the first panic ends the loop, the process lives on). -/
theorem refresh_worker_loop_calls_src : refresh_worker_loop_calls = "slogutil.RecoverAndLog,w.refresh" := by decide

end Agd.Tie.C14
