import Agd.Gen.C20
/-! Tie theorems for C20: the source facts the configuration model was written against still hold in the tree. -/
namespace Agd.Tie.C20
open Agd.Gen.C20

def positiveCondsExp : String :=
  "ok | d.Duration <= 0 | (rv.CanInt() && rv.Int() <= 0) || (rv.CanUint() && rv.Uint() == 0)"
/-- `validatePositive` checks durations and (after the fix) every integer kind: `Config.posInt false`. -/
theorem positive_conds_src : positive_conds = positiveCondsExp := rfl

def rlOptsChecksExp : String :=
  "validatePositive(\"count\", o.Count), validatePositive(\"interval\", o.Interval), validatePositive(\"subnet_key_len\", o.SubnetKeyLen)"
/-- `rateLimitOptions.validate`: count, interval, key length, in this order (`Config.valOpts`). -/
theorem rl_opts_checks_src : rl_opts_checks = rlOptsChecksExp := rfl

/-- The key length is bounded by the family width (`Config.valKeyLen`). -/
theorem keylen_cond_src : keylen_cond = "o == nil || o.SubnetKeyLen <= maxLen" := by decide

def rlChecksExp : String :=
  "validateProp,validateProp,validateProp,validateProp,validateSubnetKeyLen,validateProp,validateProp,validateSubnetKeyLen,validateProp,validateProp,validatePositive,validatePositive,validatePositive,validatePositive"
/-- `rateLimitConfig.validate`: six sub-sections with the two key-length bounds, then four scalars (`Config.valRatelimit`). -/
theorem rl_checks_src : rl_checks = rlChecksExp := rfl

def connCasesExp : String := "c == nil | !c.Enabled | c.Stop == 0 | c.Resume == 0 | c.Resume > c.Stop | default"
/-- `connLimitConfig.validate` (`Config.valConn`). -/
theorem conn_cases_src : conn_cases = connCasesExp := rfl

theorem tcp_check_src : tcp_check = "\"max_pipeline_count\", c.MaxPipelineCount" := by decide
theorem quic_check_src : quic_check = "\"max_streams_per_peer\", c.MaxStreamsPerPeer" := by decide

def cacheCasesExp : String :=
  "c == nil | c.Type != cacheTypeSimple && c.Type != cacheTypeECS | c.Size < 0 | c.Type == cacheTypeECS && c.ECSSize <= 0 | default"
/-- `cacheConfig.validate` (`Config.valCache`). -/
theorem cache_cases_src : cache_cases = cacheCasesExp := rfl

/-- `cacheConfig.toInternal` (`Config.cacheType`). -/
theorem cache_conv_conds_src : cache_conv_conds = "c.Size == 0 | c.Type == cacheTypeSimple" := by decide

def dnsCasesExp : String :=
  "c == nil | c.ReadTimeout.Duration <= 0 | c.TCPIdleTimeout.Duration <= 0 | c.TCPIdleTimeout.Duration > dnsserver.MaxTCPIdleTimeout | c.WriteTimeout.Duration <= 0 | c.HandleTimeout.Duration <= 0 | c.MaxUDPResponseSize.Bytes() == 0 | c.MaxUDPResponseSize.Bytes() > dns.MaxMsgSize | default"
/-- `dnsConfig.validate` (`Config.valDns`). -/
theorem dns_cases_src : dns_cases = dnsCasesExp := rfl

theorem dnsdb_cases_src : dnsdb_cases = "c == nil | !c.Enabled | c.MaxSize <= 0 | default" := by decide
/-- The dnsdb error names `max_size`. -/
theorem dnsdb_prop_src : dnsdb_prop = "\"max_size\", c.MaxSize" := by decide

def filtersChecksExp : String :=
  "validatePositive,validatePositive,validatePositive,validatePositive,validatePositive,validatePositive,validatePositive,validatePositive,errors.Join"
/-- `filtersConfig.validate` joins eight positivity checks (`Config.valFilters`). -/
theorem filters_checks_src : filters_checks = filtersChecksExp := rfl

/-- `connlimiter.New` (`Config.build`). -/
theorem connlimiter_new_cond_src : connlimiter_new_cond = "c == nil || c.Stop == 0 || c.Resume > c.Stop" := by decide
/-- `newServerDNS` panics outside `[0, MaxTCPIdleTimeout]` (`Config.build`). -/
theorem idle_panic_cond_src : idle_panic_cond = "t < 0 || t > MaxTCPIdleTimeout" := by decide
/-- `CountResponses` divides by the estimate (`Config.handle`). -/
theorem resp_weight_src : resp_weight = "datasize.ByteSize(resp.Len()) / l.respSzEst" := by decide
/-- The TCP pipeline semaphore has the configured capacity (`Config.handle`). -/
theorem pipeline_sema_src : pipeline_sema = "s.conf.MaxPipelineCount" := by decide
/-- A request counter allocates `count + 1` stamps (`Config.handle`). -/
theorem ring_size_src : ring_size = "num + 1" := by decide

def ifaceCasesExp : String := "l == nil | l.Port == 0 | l.Interface == \"\" | default"
/-- `interfaceListener.validate`: a zero port is `empty value` (`Config.valIface`). -/
theorem iface_cases_src : iface_cases = ifaceCasesExp := rfl

def iflistCasesExp : String := "c == nil | c.ChannelBufferSize <= 0 | len(c.List) == 0 | default"
/-- `interfaceListenersConfig.validate`: optional section, buffer size, then the list (`Config.valIface`). -/
theorem iflist_cases_src : iflist_cases = iflistCasesExp := rfl

def ddrPortCasesExp : String :=
  "r.HTTPSPort != 0 && r.HTTPSPort == r.TLSPort | r.HTTPSPort == 0 && r.QUICPort == 0 && r.TLSPort == 0 | default"
/-- `ddrRecord.validatePorts` (`Config.valPorts`). -/
theorem ddr_port_cases_src : ddr_port_cases = ddrPortCasesExp := rfl

def hcCasesExp : String :=
  "c == nil | !c.Enabled | c.DomainTmpl == \"\" | c.Interval.Duration <= 0 | c.Timeout.Duration <= 0 | c.BackoffDuration.Duration <= 0"
/-- `upstreamHealthcheckConfig.validate` (`Config.valUpstream`). -/
theorem hc_cases_src : hc_cases = hcCasesExp := rfl

/-- `queryLogConfig.validate` (`Config.valQueryLog`). -/
theorem ql_cases_src : ql_cases = "c == nil | c.File == nil | default" := by decide

def sgCasesExp : String := "g == nil | g.Name == \"\" | g.FilteringGroup == \"\""
/-- `serverGroup.validate` starts with the name and the filtering-group reference (`Config.valSrvGroups`). -/
theorem sg_cases_src : sg_cases = sgCasesExp := rfl

/-! ### Round 3: cross-references and the stream listeners -/

/-- `configuration.validateConnLimit`: skipped when disabled, `resume` below the number of stream
addresses is rejected (`Config.valConnN`). -/
theorem connn_conds_src : connn_conds = "!connLim.Enabled | connLim.Resume < n" := by decide

/-- `serverGroups.streamAddrNum` leaves out exactly the DNS-over-QUIC servers (`Config.streamN`). -/
theorem stream_skip_src : stream_skip = "s.Protocol == srvProtoQUIC" := by decide

def validateTailExp : String :=
  "errors.ErrNoValue | fmt.Errorf(\"%s: %w\", kv.Key, err) | c.validateConnLimit()"
/-- `configuration.validate` ends with the connection-limit cross-check (last entry of `Config.validate`). -/
theorem validate_tail_src : validate_tail = validateTailExp := rfl

/-- `serverGroups.toInternal` reports a filtering group that is not in the map (`XErr.unknownFg`). -/
theorem fg_lookup_src : fg_lookup = "!ok | err != nil | err != nil" := by decide

def limitWrapExp : String := "nil, err | c.limiter.Limit(l, dnsserver.MustServerInfoFromContext(ctx)), nil"
/-- Every stream listener opened through the limiter's listen config is wrapped: one slot per
listener (`Config.startListeners`). -/
theorem limit_wrap_src : limit_wrap = limitWrapExp := rfl

def fgCasesExp : String :=
  "g == nil | g.Parental == nil | g.RuleLists == nil | g.SafeBrowsing == nil | g.ID == \"\""
/-- `filteringGroup.validate`: the three sub-sections, then the identifier (`Config.valFltGroups`). -/
theorem fg_cases_src : fg_cases = fgCasesExp := rfl

/-- `tlsConfig.validate`: missing and needed / present and not needed (`Config.valTls`). -/
theorem tls_cases_src : tls_cases = "c == nil | !needsTLS" := by decide

/-! ### Round 5 — optional sections: the nil guards the shape model relies on -/

/-- `serverGroups.collectSessTicketPaths` skips a group without a `tls` section (the round-5 `fix:`;
`Shape.collectFrom false`).  Without the guard this fact is the empty string. -/
theorem tickets_guard_src : tickets_guard = "g.TLS == nil" := by decide

/-- `builder.initTLSManager` is the caller (`Shape.startup`: first step). -/
theorem tlsmgr_calls_src : tlsmgr_calls = "1" := by decide

/-- `tlsConfig.toInternal` accepts a nil section (`initServerGroups` on a plain group). -/
theorem tls_conv_guard_src : tls_conv_guard = "c == nil | err != nil" := by decide

/-- `interfaceListenersConfig.toInternal`, `webConfig.toInternal` and `websvc.New` accept the absent
optional section (`dnsCryptConfig.toInternal` has such a guard too, but it is only called for servers
whose section validation requires: no fact). -/
theorem iface_conv_guard_src : iface_conv_guard = "c == nil | err != nil" := by decide
theorem web_conv_guard_src : web_conv_guard = "c == nil" := by decide
theorem websvc_new_guard_src : websvc_new_guard = "c == nil" := by decide

/-- `linkedIPServer.toInternal`: nil section, then the bind data, then `LINKED_IP_TARGET_URL`
(`Shape.startup`: `xerr web`). -/
theorem linked_conv_guard_src : linked_conv_guard = "s == nil | err != nil | targetURL == nil" := by decide
theorem blockpage_conv_guard_src : blockpage_conv_guard = "s == nil | err != nil" := by decide

/-- `servers.validate`: empty list, nil item, the server itself, duplicate name (`Shape.valGroup`). -/
theorem srvs_cases_src : srvs_cases = "len(srvs) == 0 | s == nil | err != nil | names.Has(s.Name)" := by decide

/-! ### Round 6 — the backend-facing builder steps (`Config.Backend.wire`) -/

/-- `builder.initProfileDB` reads the validated `ratelimit.response_size_estimate` … -/
theorem profdb_est_src_src : profdb_est_src = "b.conf.RateLimit.ResponseSizeEstimate" := by decide

def profdbStorageArgsExp : String :=
  "&backendpb.ProfileStorageConfig{ BindSet: b.bindSet, ErrColl: b.errColl, Logger: b.baseLogger.With(slogutil.KeyPrefix, \"profilestorage\"), GRPCMetrics: b.backendGRPCMtrc, Metrics: backendProfileDBMtrc, Endpoint: apiURL, APIKey: b.env.ProfilesAPIKey, ResponseSizeEstimate: respSzEst, MaxProfilesSize: b.env.ProfilesMaxRespSize, }"
/-- … and hands it to the profile storage, which builds the limiters of the profiles the backend sends
(`Wiring.storageEst`) … -/
theorem profdb_storage_args_src : profdb_storage_args = profdbStorageArgsExp := rfl

def profdbNewArgsExp : String :=
  "&profiledb.Config{ Logger: b.baseLogger.With(slogutil.KeyPrefix, \"profiledb\"), Storage: strg, ErrColl: b.errColl, Metrics: profDBMtrc, CacheFilePath: b.env.ProfilesCachePath, FullSyncIvl: c.FullRefreshIvl.Duration, FullSyncRetryIvl: c.FullRefreshRetryIvl.Duration, ResponseSizeEstimate: respSzEst, }"
/-- … and to the profile database (`Wiring.cacheEst`, `fullIvl`, `retryIvl`) … -/
theorem profdb_new_args_src : profdb_new_args = profdbNewArgsExp := rfl

/-- … which passes it on to the file-cache storage that rebuilds the limiters after a restart. -/
theorem profdb_cache_args_src : profdb_cache_args = "logger, c.CacheFilePath, c.ResponseSizeEstimate" := by decide

/-- `agd.DefaultRatelimiter.CountResponses` divides by the estimate first (`Backend.probe`). -/
theorem prof_resp_weight_src : prof_resp_weight = "datasize.ByteSize(resp.Len()) / r.respSzEst" := by decide

/-- Every refresh worker makes a ticker of its interval (`Backend.ticker`). -/
theorem refresh_ticker_src : refresh_ticker = "c.Interval" := by decide

/-- `builder.initBillStat` takes the interval of its worker from `backend.bill_stat_interval`. -/
theorem bill_ivl_src_src : bill_ivl_src = "c.BillStatIvl.Duration" := by decide

end Agd.Tie.C20
