import Agd.Gen.C15
/-! Tie theorems for C15: the source facts the model was written against still hold in /repo. -/
namespace Agd.Tie.C15
open Agd.Gen.C15

def recordGuards : String :=
  "prof == nil | g != nil | !prof.QueryLogEnabled | blocked | prof.IPLogEnabled | err != nil"
/-- Order of the guards in `recordQueryInfo`: no profile → return; query log off → return; IP gate. -/
theorem record_guards_src : record_guards = recordGuards := by decide
/-- Rule statistics, then billing, then the query log — in this order. -/
theorem record_calls_src : record_calls = "mw.ruleStat.Collect,mw.billStat.Record,mw.queryLog.Write" := by decide
/-- Under the IP gate the logged address is the request's own remote address. -/
theorem client_ip_src : client_ip_rhs = "ri.RemoteIP" := by decide
/-- `DeviceData` yields a profile only for `*DeviceResultOK`. -/
theorem device_data_src : device_data_cond = "ok" := by decide

def resultCodeReturns : String :=
  "resultCodeNone | resultCodeRespAllowed | resultCodeReqAllowed | resultCodeRespBlocked | resultCodeReqBlocked | resultCodeModified"
set_option maxRecDepth 8192 in
theorem result_code_returns_src : result_code_returns = resultCodeReturns := by decide
theorem result_data_src : result_data_cond = "req == nil | resp != nil" := by decide
theorem codes_src : code_None = "1" ∧ code_ReqBlocked = "2" ∧ code_RespBlocked = "3" ∧ code_ReqAllowed = "4"
    ∧ code_RespAllowed = "5" ∧ code_Modified = "6" := by decide

/-- One `Encode` into the pooled buffer, one `WriteTo` of that buffer to a file opened with `O_APPEND`. -/
theorem encode_src : encode_call = "json.NewEncoder(entBuf.buf).Encode(entBuf.ent)" := by decide
theorem write_to_src : write_to_args = "f" := by decide
theorem open_src : open_args = "l.path, agd.DefaultWOFlags, agd.DefaultPerm" := by decide
theorem wo_flags_src : wo_flags = "os.O_APPEND | os.O_CREATE | os.O_WRONLY" := by decide
theorem write_calls_src :
    write_calls = "l.bufferPool.Get,l.bufferPool.Put,entBuf.buf.Reset,os.OpenFile,entBuf.buf.WriteTo" := by decide
/-- The main middleware records only after the debug return and after a successful `WriteMsg`. -/
theorem wrap_calls_src : wrap_calls = "mw.writeDebugResponse,rw.WriteMsg,mw.recordQueryInfo" := by decide

def jsonlFields : String :=
  "RemoteIP,RequestID,ProfileID,DeviceID,ClientCountry,ResponseCountry,DomainFQDN,FilterListID,FilterRule,Timestamp,ClientASN,Elapsed,RequestType,ResponseCode,Random,ResultCode,DNSSEC,Protocol"
set_option maxRecDepth 8192 in
/-- Field order of `jsonlEntry` = order of `fieldsOf`. -/
theorem jsonl_fields_src : jsonl_fields = jsonlFields := by decide

/-- `ipFromAnswer` looks at A, AAAA and HTTPS records only (`RR` in the model) and gives up on a missing or
unconvertible address (`ipOfVal`). -/
theorem ip_from_answer_cases_src : ip_from_answer_cases = "*dns.A | *dns.AAAA | *dns.HTTPS | default" := by decide
theorem ip_from_answer_conds_src : ip_from_answer_conds = "netIP == nil | err != nil" := by decide
/-- `ipFromHTTPSRR` stops at the first parameter with a family (`ipFromKVs`). -/
theorem https_rr_conds_src : https_rr_conds = "fam != netutil.AddrFamilyNone | netIP == nil | err != nil" := by decide
/-- The logged code is the whole `Msg.Rcode`, converted, not a part of it (`rcode16`). -/
theorem response_rcode_src : response_rcode_rhs = "dnsmsg.RCode(resp.Rcode)" := by decide
/-- The logged name is the question of the request as received, not of a response. -/
theorem entry_name_src : entry_name_rhs = "fctx.originalRequest.Question[0]" := by decide

def cacheProfileLiteral : String :=
  "pbProfiles, &Profile{ FilterConfig: filterConfigToProtobuf(p.FilterConfig), Access: accessToProtobuf(p.Access.Config()), BlockingMode: blockingModeToProtobuf(p.BlockingMode), Ratelimiter: ratelimiterToProtobuf(p.Ratelimiter.Config()), ProfileId: string(p.ID), DeviceIds: unsafelyConvertStrSlice[agd.DeviceID, string](p.DeviceIDs), FilteredResponseTtl: durationpb.New(p.FilteredResponseTTL), AutoDevicesEnabled: p.AutoDevicesEnabled, BlockChromePrefetch: p.BlockChromePrefetch, BlockFirefoxCanary: p.BlockFirefoxCanary, BlockPrivateRelay: p.BlockPrivateRelay, Deleted: p.Deleted, FilteringEnabled: p.FilteringEnabled, IpLogEnabled: p.IPLogEnabled, QueryLogEnabled: p.QueryLogEnabled, }"
/-- The write side of the cache file (`filecachepb.profilesToProtobuf`, not translatable: it loops): in the
`Profile` message appended for profile `p`, `ProfileId`, `Deleted`, `IpLogEnabled` and `QueryLogEnabled` are filled
from `p`'s field of the same meaning (`cacheOfProf` in the model). -/
theorem cache_profile_literal_src : cache_profile_literal = cacheProfileLiteral := rfl


/-! Round 4: production wiring (`Model/Record.lean`, "Production wiring"). -/
/-- `builder.queryLog`: the file log only if `query_log.file.enabled`, else `querylog.Empty{}`. -/
theorem querylog_switch_src : querylog_file_needed = "b.conf.QueryLog.File.Enabled" ∧ querylog_guard = "!fileNeeded" ∧
    querylog_returns = "querylog.Empty{}" := by decide
/-- `dnssvc.newDeviceFinder`: a group without profiles gets the empty device finder (`wiredLookup`). -/
theorem device_finder_src : device_finder_guard = "!g.ProfilesEnabled" ∧ device_finder_empty = "agd.EmptyDeviceFinder{}" := by decide
/-- `deviceByAddrs`: the linked address only with `LinkedIPEnabled`. -/
theorem linked_ip_src :
    linked_ip_guard = "f.srv.BindsToInterfaces() && !f.srv.HasAddr(laddr) | !f.srv.LinkedIPEnabled" := by decide
/-- `serverProto.toInternal` = `protoOfYAML`, case by case. -/
theorem proto_src :
    proto_cases = "srvProtoDNS | srvProtoDNSCrypt | srvProtoHTTPS | srvProtoQUIC | srvProtoTLS | default" ∧
    proto_returns = "agd.ProtoDNS | agd.ProtoDNSCrypt | agd.ProtoDoH | agd.ProtoDoQ | agd.ProtoDoT | agd.ProtoInvalid" := by decide

end Agd.Tie.C15
