import Agd.Gen.TrC09
/-!
# C09: decision structure of the rate limiter, as translated from the source

`Agd.Gen.TrC09.*` are regenerated from `internal/dnsserver/ratelimit/{backoff,counter}.go` on every
run (`extract/tr.go`).  Library calls (`allowlist.IsAllowed`, the go-cache look-ups, `time.Now`) are
opaque: their results are parameters, and the definitions return the *trace* of opaque calls made, in
order, with their scalar arguments.  The theorems below are stated on the translated code itself.
-/
namespace Agd.Tie.TrC09
open Agd.Gen.TrC09 Agd.TrPrelude

theorem translation_complete : translationFailures = [] := by decide

/-- Names of the calls in a trace. -/
def names (tr : List (String × List String)) : List String := tr.map (·.1)

/-- A client in backoff is dropped *before* anything is counted: the request counter
(`hasHitRateLimit`) is not touched.  (For every configuration and every environment.) -/
theorem backoff_drops_without_counting (l : S_ratelimit_Backoff) (qt : Int) (key : String) (is6 hit : Bool)
    (hany : ¬ (l.refuseANY = true ∧ qt = 255)) :
    let r := Backoff_IsRateLimited l none qt (false, none) key true is6 hit
    r.1 = true ∧ r.2.1 = false ∧ r.2.2.1 = none ∧ "hasHitRateLimit" ∉ names r.2.2.2 := by
  have h : (l.refuseANY && decide (qt = 255)) = false := by
    cases hr : l.refuseANY <;> simp_all
  simp [Backoff_IsRateLimited, h, names]

/-- An allowlisted client is never dropped by the limiter and never counted (unless ANY is refused
for everyone). -/
theorem allowlisted_passes_uncounted (l : S_ratelimit_Backoff) (qt : Int) (key : String) (bk is6 hit : Bool)
    (hany : ¬ (l.refuseANY = true ∧ qt = 255)) :
    let r := Backoff_IsRateLimited l none qt (true, none) key bk is6 hit
    r.1 = false ∧ r.2.1 = true ∧ "isBackoff" ∉ names r.2.2.2 ∧ "hasHitRateLimit" ∉ names r.2.2.2 := by
  have h : (l.refuseANY && decide (qt = 255)) = false := by
    cases hr : l.refuseANY <;> simp_all
  simp [Backoff_IsRateLimited, h, names]

/-- With refusal configured an ANY query is dropped for everyone, before the allowlist is consulted. -/
theorem refuse_any_for_everyone (l : S_ratelimit_Backoff) (al : Bool × Option String) (key : String)
    (bk is6 hit : Bool) (h : l.refuseANY = true) :
    let r := Backoff_IsRateLimited l none 255 al key bk is6 hit
    r.1 = true ∧ "IsAllowed" ∉ names r.2.2.2 := by
  simp [Backoff_IsRateLimited, h, names]

/-- Otherwise the verdict is the request counter's, asked with the limit and interval of the client's
address family and the client's subnet key. -/
theorem counted_with_family_limits (l : S_ratelimit_Backoff) (qt : Int) (key : String) (is6 hit : Bool)
    (hany : ¬ (l.refuseANY = true ∧ qt = 255)) :
    let r := Backoff_IsRateLimited l none qt (false, none) key false is6 hit
    r.1 = hit ∧ r.2.2.2.getLast? = some ("hasHitRateLimit",
      [key, toString (if is6 then l.ipv6Count else l.ipv4Count),
       toString (if is6 then l.ipv6Interval else l.ipv4Interval)]) := by
  have h : (l.refuseANY && decide (qt = 255)) = false := by
    cases hr : l.refuseANY <;> simp_all
  cases is6 <;> simp [Backoff_IsRateLimited, h]

/-- `RequestCounter.Add`: the new stamp is pushed first, and the verdict is
`tail > 0 ∧ ts − tail ≤ ivl` for the stamp `tail` the ring then shows. -/
theorem counter_add (r : S_ratelimit_RequestCounter) (ts tail : Int) :
    RequestCounter_Add r ts tail = (decide (tail > 0) && decide (ts - tail ≤ r.ivl), [("Push", [toString ts])]) := by
  simp [RequestCounter_Add]

example : (Backoff_IsRateLimited ⟨1024, 1000, 300, 10, 24, 3000, 10, 48, true⟩ none 1 (false, none) "k" false true true).1 = true := by
  decide

end Agd.Tie.TrC09

#print axioms Agd.Tie.TrC09.translation_complete
#print axioms Agd.Tie.TrC09.backoff_drops_without_counting
#print axioms Agd.Tie.TrC09.allowlisted_passes_uncounted
#print axioms Agd.Tie.TrC09.refuse_any_for_everyone
#print axioms Agd.Tie.TrC09.counted_with_family_limits
#print axioms Agd.Tie.TrC09.counter_add
