import Agd.Gen.TrC09
import Agd.Model.Ratelimit
/-!
# C09: the rate limiter's logic, as translated from the source

`Agd.Gen.TrC09.*` are regenerated on every run (`extract/tr.go`, `extract/translate/C09.json`) from
`internal/dnsserver/ratelimit/{backoff,counter,ratelimit}.go`, `internal/dnssvc/internal/ratelimitmw/limit.go`
and `internal/agd/ratelimit.go`.  Library calls (`allowlist.IsAllowed`, the go-cache look-ups, `time.Now`, the
next handler, the response writer) are opaque: their results are parameters, and the definitions return the
*trace* of opaque calls made, in order, with their scalar arguments.  The theorems are stated on the translated
code itself, or relate it to the hand-written model `Agd.Model.Ratelimit` for all inputs.
-/
namespace Agd.Tie.TrC09
open Agd.Gen.TrC09 Agd.TrPrelude

theorem translation_complete : translationFailures = [] := by decide

/-- Names of the calls in a trace. -/
def names (tr : List (String × List String)) : List String := tr.map (·.1)

/-- A client in backoff is dropped *before* anything is counted: the request counter
(`hasHitRateLimit`) is not touched.  (For every configuration and every environment.) -/
theorem backoff_drops_without_counting (l : S_ratelimit_Backoff) (qt : Int) (key : String) (is6 hit : Bool)
    (hany : ¬ (l.refuseANY = true ∧ qt = 255)) :
    let r := Backoff_IsRateLimited l none qt (false, none) key true is6 hit
    r.1 = true ∧ r.2.1 = false ∧ r.2.2.1 = none ∧ "hasHitRateLimit" ∉ names r.2.2.2 := by
  have h : (l.refuseANY && decide (qt = 255)) = false := by
    cases hr : l.refuseANY <;> simp_all
  simp [Backoff_IsRateLimited, h, names]

/-- An allowlisted client is never dropped by the limiter and never counted (unless ANY is refused
for everyone). -/
theorem allowlisted_passes_uncounted (l : S_ratelimit_Backoff) (qt : Int) (key : String) (bk is6 hit : Bool)
    (hany : ¬ (l.refuseANY = true ∧ qt = 255)) :
    let r := Backoff_IsRateLimited l none qt (true, none) key bk is6 hit
    r.1 = false ∧ r.2.1 = true ∧ "isBackoff" ∉ names r.2.2.2 ∧ "hasHitRateLimit" ∉ names r.2.2.2 := by
  have h : (l.refuseANY && decide (qt = 255)) = false := by
    cases hr : l.refuseANY <;> simp_all
  simp [Backoff_IsRateLimited, h, names]

/-- With refusal configured an ANY query is dropped for everyone, before the allowlist is consulted. -/
theorem refuse_any_for_everyone (l : S_ratelimit_Backoff) (al : Bool × Option String) (key : String)
    (bk is6 hit : Bool) (h : l.refuseANY = true) :
    let r := Backoff_IsRateLimited l none 255 al key bk is6 hit
    r.1 = true ∧ "IsAllowed" ∉ names r.2.2.2 := by
  simp [Backoff_IsRateLimited, h, names]

/-- Otherwise the verdict is the request counter's, asked with the limit and interval of the client's
address family and the client's subnet key. -/
theorem counted_with_family_limits (l : S_ratelimit_Backoff) (qt : Int) (key : String) (is6 hit : Bool)
    (hany : ¬ (l.refuseANY = true ∧ qt = 255)) :
    let r := Backoff_IsRateLimited l none qt (false, none) key false is6 hit
    r.1 = hit ∧ r.2.2.2.getLast? = some ("hasHitRateLimit",
      [key, toString (if is6 then l.ipv6Count else l.ipv4Count),
       toString (if is6 then l.ipv6Interval else l.ipv4Interval)]) := by
  have h : (l.refuseANY && decide (qt = 255)) = false := by
    cases hr : l.refuseANY <;> simp_all
  cases is6 <;> simp [Backoff_IsRateLimited, h]

/-- `RequestCounter.Add`: the new stamp is pushed first, and the verdict is
`tail > 0 ∧ ts − tail ≤ ivl` for the stamp `tail` the ring then shows. -/
theorem counter_add (r : S_ratelimit_RequestCounter) (ts tail : Int) :
    RequestCounter_Add r ts tail = (decide (tail > 0) && decide (ts - tail ≤ r.ivl), [("Push", [toString ts])]) := by
  simp [RequestCounter_Add]

/-! ## Relation to the hand-written model (`Agd.Model.Ratelimit`) -/

/-- `RequestCounter.Add` is the hand model's `ringAdd`, for every ring, interval and stamp: the verdict
of the translated code, fed with the stamp the ring shows after the push, is the model's verdict; and
the stamp pushed is the stamp compared. -/
theorem counter_add_is_ringAdd (r : Agd.Ratelimit.Ring) (ivl ts : Int) :
    RequestCounter_Add ⟨ivl⟩ ts (r.push ts).current =
      ((Agd.Ratelimit.ringAdd r ivl ts).2, [("Push", [toString ts])]) := by
  simp [RequestCounter_Add, Agd.Ratelimit.ringAdd]

/-- `Backoff.isBackoff` is the model's `isBackoff` when the hit cache answers as the model's table
does (`Get` finds an unexpired entry, `Load` is its value); `count` is unsigned, so `l.count = ↑c.count`. -/
theorem isBackoff_tr (l : S_ratelimit_Backoff) (c : Agd.Ratelimit.Cfg) (s : Agd.Ratelimit.St)
    (k : Agd.Ratelimit.Key) (now : Int) (key : String) (p : AbsPtr) (hc : l.count = (c.count : Int)) :
    (Backoff_isBackoff l key (p, (s.hit.get k now).isSome) (((s.hit.get k now).getD 0 : Nat) : Int)).1
      = Agd.Ratelimit.isBackoff c s k now := by
  unfold Backoff_isBackoff Agd.Ratelimit.isBackoff
  cases h : s.hit.get k now <;> simp [hc]

/-- The look-up happens under the client's key, and the counter is read only when an entry exists. -/
theorem isBackoff_lookup (l : S_ratelimit_Backoff) (key : String) (p : AbsPtr) (ok : Bool) (n : Int) :
    (Backoff_isBackoff l key (p, ok) n).2.head? = some ("Get", [key]) ∧
    ("Load" ∈ names (Backoff_isBackoff l key (p, ok) n).2 ↔ ok = true) ∧
    (ok = false → (Backoff_isBackoff l key (p, ok) n).1 = false) := by
  cases ok <;> simp [Backoff_isBackoff, names]

/-- The configuration of the model as the translated `Backoff` structure sees it. -/
def CfgMatches (l : S_ratelimit_Backoff) (c : Agd.Ratelimit.Cfg) : Prop :=
  l.refuseANY = c.refuseAny ∧ l.ipv4Count = (c.v4count : Int) ∧ l.ipv4Interval = c.v4ivl ∧
  l.ipv6Count = (c.v6count : Int) ∧ l.ipv6Interval = c.v6ivl

/-- `(drop, allowlisted)` as the model's verdict. -/
def verdictOf (drop allowlisted : Bool) : Agd.Ratelimit.Verdict :=
  if drop then .drop else if allowlisted then .allowlisted else .pass

/-- `Backoff.IsRateLimited` decides as the model's `isRateLimited` does, for every configuration,
limiter state, time, client and query type, when the opaque calls answer as the model's parts do
(allowlist, backoff test, request counter; `Is6` is the negation of the model's `is4`; a valid address). -/
theorem isRateLimited_tr (l : S_ratelimit_Backoff) (c : Agd.Ratelimit.Cfg) (hm : CfgMatches l c)
    (s : Agd.Ratelimit.St) (now : Int) (a : Agd.Ratelimit.Addr) (qt : Nat) (key : String) :
    let K := Agd.Ratelimit.subnetKey a c.v4len c.v6len
    let r := Backoff_IsRateLimited l none (qt : Int) (Agd.Ratelimit.allowed c a, none) key
      (Agd.Ratelimit.isBackoff c s K now) (!a.is4)
      (Agd.Ratelimit.hasHitRateLimit c s K (Agd.Ratelimit.famCount c a) (Agd.Ratelimit.famIvl c a) now).2
    verdictOf r.1 r.2.1 = (Agd.Ratelimit.isRateLimited c s now a qt).2 ∧ r.2.2.1 = none := by
  obtain ⟨h1, h2, h3, h4, h5⟩ := hm
  have hq : decide ((qt : Int) = 255) = (qt == Agd.Ratelimit.qtypeANY) := by
    unfold Agd.Ratelimit.qtypeANY
    by_cases h : qt = 255
    · subst h; rfl
    · have : ¬ ((qt : Int) = 255) := by omega
      simp [h, this]
  unfold Backoff_IsRateLimited Agd.Ratelimit.isRateLimited
  simp only [h1, hq]
  cases c.refuseAny && qt == Agd.Ratelimit.qtypeANY <;> simp [verdictOf]
  cases Agd.Ratelimit.allowed c a <;> simp
  cases Agd.Ratelimit.isBackoff c s (Agd.Ratelimit.subnetKey a c.v4len c.v6len) now <;> simp
  cases a.is4 <;> simp <;> split <;> simp_all

/-- … and when the request counter is reached it is asked with the model's `famCount` / `famIvl`. -/
theorem isRateLimited_counts_with_model_limits (l : S_ratelimit_Backoff) (c : Agd.Ratelimit.Cfg)
    (hm : CfgMatches l c) (a : Agd.Ratelimit.Addr) (qt : Int) (key : String) (hit : Bool)
    (hany : ¬ (l.refuseANY = true ∧ qt = 255)) :
    (Backoff_IsRateLimited l none qt (false, none) key false (!a.is4) hit).2.2.2.getLast? =
      some ("hasHitRateLimit", [key, toString ((Agd.Ratelimit.famCount c a : Nat) : Int),
        toString (Agd.Ratelimit.famIvl c a)]) := by
  obtain ⟨h1, h2, h3, h4, h5⟩ := hm
  have h : (l.refuseANY && decide (qt = 255)) = false := by
    cases hr : l.refuseANY <;> simp_all
  cases h4' : a.is4 <;>
    simp [Backoff_IsRateLimited, h, h4', Agd.Ratelimit.famCount, Agd.Ratelimit.famIvl, h2, h3, h4, h5]

/-! ## `hasHitRateLimit`, `incBackoff`, `subnetKey`, `CountResponses`, `validateAddr` -/

/-- The verdict of `hasHitRateLimit` is the request counter's (`Add`), which is asked exactly once,
whether the counter was found or freshly made. -/
theorem hasHit_is_counter_verdict (l : S_ratelimit_Backoff) (key : String) (count ivl : Int) (ok above : Bool)
    (old new : Option S_ratelimit_RequestCounter) (p : AbsPtr) :
    let r := Backoff_hasHitRateLimit l key count ivl (p, ok) old above new
    r.1 = above ∧ (names r.2).count "Add" = 1 := by
  cases ok <;> cases above <;> simp [Backoff_hasHitRateLimit, names]

/-- A request above the limit is one more backoff hit of the same subnet key; one within the limit is not. -/
theorem hasHit_incBackoff_iff_above (l : S_ratelimit_Backoff) (key : String) (count ivl : Int) (ok above : Bool)
    (old new : Option S_ratelimit_RequestCounter) (p : AbsPtr) :
    let r := Backoff_hasHitRateLimit l key count ivl (p, ok) old above new
    (("incBackoff", [key]) ∈ r.2 ↔ above = true) ∧ ("incBackoff" ∈ names r.2 ↔ above = true) ∧
    (above = true → r.2.getLast? = some ("incBackoff", [key])) := by
  cases ok <;> cases above <;> simp [Backoff_hasHitRateLimit, names]

/-- A subnet without a counter gets a new one with exactly the limit and interval passed in, stored
under the same key *before* the request is added; an existing counter is reused and not replaced. -/
theorem hasHit_counter_creation (l : S_ratelimit_Backoff) (key : String) (count ivl : Int) (ok above : Bool)
    (old new : Option S_ratelimit_RequestCounter) (p : AbsPtr) :
    let r := Backoff_hasHitRateLimit l key count ivl (p, ok) old above new
    r.2.head? = some ("Get", [key]) ∧
    (ok = false → r.2.take 4 = [("Get", [key]), ("NewRequestCounter", [toString count, toString ivl]),
        ("SetDefault", [key, "_"]), ("Add", ["_"])]) ∧
    (ok = true → "NewRequestCounter" ∉ names r.2 ∧ "SetDefault" ∉ names r.2) := by
  cases ok <;> cases above <;> simp [Backoff_hasHitRateLimit, names]

/-- `incBackoff` adds exactly one to the subnet's hit counter, looked up under the same key; the entry is
(re)stored — with a fresh lifetime — only when none existed. -/
theorem incBackoff_effects (l : S_ratelimit_Backoff) (key : String) (p : AbsPtr) (ok : Bool) :
    let tr := Backoff_incBackoff l key (p, ok)
    tr.head? = some ("Get", [key]) ∧ tr.count ("Add", [toString (1 : Int)]) = 1 ∧ (names tr).count "Add" = 1 ∧
    (("SetDefault", [key, "_"]) ∈ tr ↔ ok = false) ∧ ("SetDefault" ∈ names tr ↔ ok = false) := by
  cases ok <;> simp [Backoff_incBackoff, names]

/-- The bucket key is the client's address masked to the key length of *its* family, and the function
panics exactly when that masking fails. -/
theorem subnetKey_family_len (l : S_ratelimit_Backoff) (is4 : Bool) (s : String) :
    Backoff_subnetKey l is4 ((), none) s ((), none) =
      some (s, [("Prefix", [toString (if is4 then l.ipv4SubnetKeyLen else l.ipv6SubnetKeyLen)])]) := by
  cases is4 <;> simp [Backoff_subnetKey]

theorem subnetKey_no_panic_iff (l : S_ratelimit_Backoff) (is4 : Bool) (s : String) (e4 e6 : Option String) :
    Backoff_subnetKey l is4 ((), e4) s ((), e6) ≠ none ↔ (if is4 then e4 else e6) = none := by
  cases is4 <;> cases e4 <;> cases e6 <;> simp [Backoff_subnetKey]

theorem flatten_replicate_singleton {α} (n : Nat) (e : α) : (List.replicate n [e]).flatten = List.replicate n e := by
  induction n with
  | zero => rfl
  | succ k ih => simp [List.replicate_succ, ih]

theorem wrap64_of_nat (n : Nat) (h : n < 2 ^ 64) : goWrapU 18446744073709551616 (n : Int) = (n : Int) := by
  apply goWrapU_of_range <;> omega

/-- `CountResponses` counts a response of `len` bytes as `⌊len / est⌋` further events — the model's
`respWeight` — each a full `IsRateLimited` round; (`est`, `len` unsigned, `len < 2^64`, `est > 0`). -/
theorem countResponses_weight (l : S_ratelimit_Backoff) (est len : Nat) (he : 0 < est) (hl : len < 2 ^ 64)
    (hest : l.respSzEst = (est : Int)) :
    Backoff_CountResponses l (len : Int) =
      some (List.replicate (Agd.Ratelimit.respWeight est len) ("IsRateLimited", ["_", "_", "_"])) := by
  have hd : Int.tdiv (len : Int) (est : Int) = ((len / est : Nat) : Int) := by
    rw [Int.tdiv_eq_ediv_of_nonneg (by omega)]; simp
  have hz : ¬ ((est : Int) = 0) := by omega
  simp only [Backoff_CountResponses, wrap64_of_nat len hl, hest, goDiv?, hz, if_false, hd,
    flatten_replicate_singleton, Agd.Ratelimit.respWeight, Int.toNat_natCast, List.nil_append]

/-- `CountResponses` panics (division by zero) exactly for a zero size estimate — excluded by C20's validator. -/
theorem countResponses_panics_iff (l : S_ratelimit_Backoff) (len : Int) :
    Backoff_CountResponses l len = none ↔ l.respSzEst = 0 := by
  unfold Backoff_CountResponses goDiv?
  by_cases h : l.respSzEst = 0 <;> simp [h]

/-- Only an invalid (zero) address is refused by `validateAddr`. -/
theorem validateAddr_ok_iff (valid : Bool) : validateAddr valid = none ↔ valid = true := by
  cases valid <;> simp [validateAddr]

/-! ## The library middleware `ratelimit.Middleware` (`ratelimit.go`) -/

/-- The protocol gate: limiting applies iff the protocol list is empty or contains the server's protocol
(the model's `enabled` flag of `serveLib`). -/
theorem isEnabledForProto_tr (mw : S_ratelimit_Middleware) (si : Option S_dnsserver_ServerInfo) (has : Bool) :
    Middleware_isEnabledForProto mw si has = (mw.protos.isEmpty || has) := by
  cases h : mw.protos <;> simp [Middleware_isEnabledForProto, h] <;> omega

/-- Every environment of `mwHandler.ServeDNS`, bundled. -/
structure LibEnv where
  nextH : AbsPtr
  enabled : Bool
  nextOff : Option String
  raddr : AbsPtr
  port : Int
  lim : Bool × Bool × Option String
  errf : Option String
  nextAllow : Option String
  nw : Option S_dnsserver_NonWriterResponseWriter
  next : Option String
  msg : AbsPtr
  write : Option String

def libServe (mh : S_ratelimit_mwHandler) (e : LibEnv) : Option String × List (String × List String) :=
  mwHandler_ServeDNS mh e.nextH e.enabled e.nextOff e.raddr () e.port () e.lim e.errf e.nextAllow e.nw e.next e.msg e.write

/-- A protocol that is not rate limited goes straight to the next handler; the limiter is not consulted. -/
theorem lib_other_proto_passthrough (mh : S_ratelimit_mwHandler) (e : LibEnv) (h : e.enabled = false) :
    libServe mh e = (e.nextOff, [("ServeDNS", ["_", "_", "_"])]) := by
  simp [libServe, mwHandler_ServeDNS, h]

/-- A remote address without a port is dropped unanswered before the limiter is consulted. -/
theorem lib_port_zero_dropped (mh : S_ratelimit_mwHandler) (e : LibEnv) (h : e.enabled = true) (hp : e.port = 0) :
    libServe mh e = (none, [("OnRateLimited", ["_", "_", "_"])]) := by
  simp [libServe, mwHandler_ServeDNS, h, hp]

/-- **Dropped without any response**: when the limiter says drop, neither the next handler runs nor is
anything written or counted; the middleware returns without error. -/
theorem lib_drop_no_response (mh : S_ratelimit_mwHandler) (e : LibEnv) (h : e.enabled = true) (hp : e.port ≠ 0)
    (al : Bool) (hl : e.lim = (true, al, none)) :
    (libServe mh e).1 = none ∧ "ServeDNS" ∉ names (libServe mh e).2 ∧ "WriteMsg" ∉ names (libServe mh e).2 ∧
      "CountResponses" ∉ names (libServe mh e).2 := by
  simp [libServe, mwHandler_ServeDNS, h, hp, hl, names]

/-- An allowlisted client is served directly and its response is not counted. -/
theorem lib_allowlisted_served_uncounted (mh : S_ratelimit_mwHandler) (e : LibEnv) (h : e.enabled = true)
    (hp : e.port ≠ 0) (hl : e.lim = (false, true, none)) :
    (libServe mh e).1 = e.nextAllow ∧ "ServeDNS" ∈ names (libServe mh e).2 ∧
      "CountResponses" ∉ names (libServe mh e).2 := by
  simp [libServe, mwHandler_ServeDNS, h, hp, hl, names]

/-- A passed query: the limiter is asked first, the next handler runs, its response is weighed
(`CountResponses`) and then written; the result is the write's. -/
theorem lib_pass_counted_then_written (mh : S_ratelimit_mwHandler) (e : LibEnv) (h : e.enabled = true)
    (hp : e.port ≠ 0) (hl : e.lim = (false, false, none)) (hn : e.next = none) (hr : e.msg = true) :
    (libServe mh e).1 = e.write ∧
      names (libServe mh e).2 = ["IsRateLimited", "ServeDNS", "CountResponses", "WriteMsg"] := by
  simp [libServe, mwHandler_ServeDNS, h, hp, hl, hn, hr, names]

/-- Nothing is ever written or counted unless the limiter was asked and said "pass" without error. -/
theorem lib_write_only_after_pass (mh : S_ratelimit_mwHandler) (e : LibEnv)
    (hw : "WriteMsg" ∈ names (libServe mh e).2 ∨ "CountResponses" ∈ names (libServe mh e).2) :
    e.enabled = true ∧ e.port ≠ 0 ∧ e.lim = (false, false, none) ∧
      (names (libServe mh e).2).head? = some "IsRateLimited" := by
  obtain ⟨nh, en, no, ra, port, ⟨d, a, er⟩, errf, na, nw, nx, rn, wr⟩ := e
  revert hw
  simp only [libServe, mwHandler_ServeDNS]
  cases en <;> cases d <;> cases a <;> cases er <;> cases nx <;> cases rn <;>
    by_cases hp : port = 0 <;> simp [hp, names]

/-- What a trace means for the client, in the model's vocabulary. -/
def effectOf (tr : List (String × List String)) : Agd.Ratelimit.Effect :=
  if "ServeDNS" ∈ names tr then (if "CountResponses" ∈ names tr then .servedCounted else .servedNoCount)
  else .dropped

def verdictTuple : Agd.Ratelimit.Verdict → Bool × Bool × Option String
  | .drop => (true, false, none)
  | .allowlisted => (false, true, none)
  | .pass => (false, false, none)

/-- The translated library middleware has the effect of the hand model's `serveLib`, for every
configuration, state, time, client and response size, when the limiter answers with the model's verdict
and the next handler produces a response. -/
theorem lib_effect_is_model (mh : S_ratelimit_mwHandler) (e : LibEnv) (c : Agd.Ratelimit.Cfg)
    (g : Agd.Ratelimit.St) (now tick : Int) (a : Agd.Ratelimit.Addr) (qt len : Nat)
    (hl : e.lim = verdictTuple (Agd.Ratelimit.isRateLimited c g now a qt).2)
    (hn : e.next = none) (hr : e.msg = true) :
    effectOf (libServe mh e).2 =
      (Agd.Ratelimit.serveLib c e.enabled (decide (e.port = 0)) g now tick a qt (some len)).2 := by
  obtain ⟨nh, en, no, ra, port, lim, errf, na, nw, nx, rn, wr⟩ := e
  simp only at hl hn hr
  subst hn hr hl
  unfold Agd.Ratelimit.serveLib Agd.Ratelimit.serveGlobal
  cases en <;> by_cases hp : port = 0 <;>
    cases hv : (Agd.Ratelimit.isRateLimited c g now a qt).2 <;>
    simp [libServe, mwHandler_ServeDNS, effectOf, names, verdictTuple, hp] <;>
    (split <;> simp_all)

/-! ## Profile limit versus global limit (`ratelimitmw/limit.go`, `agd/ratelimit.go`) -/

/-- A protocol outside the limited set is served directly: neither limiter is consulted. -/
theorem mw_other_proto_passthrough (mw : S_ratelimitmw_Middleware) (ri : Option S_agd_RequestInfo) (nx : Option String)
    (p : Bool × Option String) (ef g : Option String) :
    serveWithRatelimiting mw ri false nx p ef g = (nx, [("ServeDNS", ["_", "_", "_"])]) := by
  simp [serveWithRatelimiting]

/-- The profile's limiter is consulted first; the global one is consulted afterwards **iff** the profile
flow neither failed nor handled the query (`shouldReturn = false`). -/
theorem mw_profile_first_global_iff (mw : S_ratelimitmw_Middleware) (ri : Option S_agd_RequestInfo) (nx : Option String)
    (ret : Bool) (perr ef g : Option String) :
    let r := serveWithRatelimiting mw ri true nx (ret, perr) ef g
    (names r.2).head? = some "serveWithProfileRatelimiting" ∧ "ServeDNS" ∉ names r.2 ∧
    ("serveWithGlobalRatelimiting" ∈ names r.2 ↔ (ret = false ∧ perr = none)) ∧
    (ret = false → perr = none → r.1 = g) ∧ (ret = true → perr = none → r.1 = none) := by
  cases ret <;> cases perr <;> simp [serveWithRatelimiting, names]

/-- Every environment of `serveWithProfileRatelimiting`, bundled. -/
structure ProfEnv where
  dev : Option S_agd_Profile × Option S_agd_Device
  check : Int
  nw : Option S_dnsserver_NonWriterResponseWriter
  next : Option String
  errf1 : Option String
  msg : AbsPtr
  write : Option String
  errf2 : Option String

def profServe (mw : S_ratelimitmw_Middleware) (ri : Option S_agd_RequestInfo) (e : ProfEnv) :=
  serveWithProfileRatelimiting mw ri e.dev e.check e.nw e.next e.errf1 e.msg e.write e.errf2

/-- The values of `agd.RatelimitResult` as the source defines them (`iota + 1`). -/
def resPass : Int := 1
def resDrop : Int := 2
def resUseGlobal : Int := 3

/-- Without a profile the query is left to the global limiter and nothing else happens. -/
theorem prof_none_uses_global (mw : S_ratelimitmw_Middleware) (ri : Option S_agd_RequestInfo) (e : ProfEnv)
    (h : e.dev.1 = none) : profServe mw ri e = some (false, none, []) := by
  simp [profServe, serveWithProfileRatelimiting, h]

/-- The profile's limiter says drop: the query is finished (`shouldReturn`, so the global limiter is not
asked either) and nothing is served, counted or written. -/
theorem prof_drop_no_response (mw : S_ratelimitmw_Middleware) (ri : Option S_agd_RequestInfo) (e : ProfEnv)
    (h : e.dev.1 ≠ none) (hc : e.check = resDrop) :
    ∃ tr, profServe mw ri e = some (true, none, tr) ∧ names tr = ["Ratelimiter.Check", "metrics.IncrementRatelimitedByProfile"] := by
  cases hd : e.dev.1 with
  | none => exact absurd hd h
  | some p => simp [profServe, serveWithProfileRatelimiting, hd, hc, resDrop, names]

/-- The profile's limiter does not apply to this client (`UseGlobal`): the decision is left to the global
limiter, and the profile flow has neither served nor counted anything. -/
theorem prof_useGlobal_defers (mw : S_ratelimitmw_Middleware) (ri : Option S_agd_RequestInfo) (e : ProfEnv)
    (h : e.dev.1 ≠ none) (hc : e.check = resUseGlobal) :
    profServe mw ri e = some (false, none, [("Ratelimiter.Check", ["_", "_", "_"])]) := by
  cases hd : e.dev.1 with
  | none => exact absurd hd h
  | some p => simp [profServe, serveWithProfileRatelimiting, hd, hc, resUseGlobal]

/-- The profile's own limit applies **instead of** the global one: on `Pass` the response is weighed on
the *profile's* limiter (`prof.Ratelimiter`), written, and the query is finished without the global limiter. -/
theorem prof_pass_counts_on_profile_limiter (mw : S_ratelimitmw_Middleware) (ri : Option S_agd_RequestInfo) (e : ProfEnv)
    (h : e.dev.1 ≠ none) (hc : e.check = resPass) (hn : e.next = none) (hr : e.msg = true) (hw : e.write = none) :
    ∃ tr, profServe mw ri e = some (true, none, tr) ∧
      names tr = ["Ratelimiter.Check", "next.ServeDNS", "Ratelimiter.CountResponses", "rw.WriteMsg"] := by
  cases hd : e.dev.1 with
  | none => exact absurd hd h
  | some p => simp [profServe, serveWithProfileRatelimiting, hd, hc, resPass, hn, hr, hw, names]

/-- The profile flow panics exactly on a result outside the three enum values. -/
theorem prof_no_panic_iff (mw : S_ratelimitmw_Middleware) (ri : Option S_agd_RequestInfo) (e : ProfEnv) :
    profServe mw ri e ≠ none ↔ (e.dev.1 = none ∨ e.check = resPass ∨ e.check = resDrop ∨ e.check = resUseGlobal) := by
  obtain ⟨⟨p, d⟩, ck, nw, nx, e1, rn, wr, e2⟩ := e
  simp only [profServe, serveWithProfileRatelimiting, resPass, resDrop, resUseGlobal]
  cases p with
  | none => simp
  | some p =>
    by_cases h2 : ck = 2
    · simp [h2]
    · by_cases h3 : ck = 3
      · simp [h3]
      · by_cases h1 : ck = 1
        · cases nx <;> cases rn <;> cases wr <;> simp [h1]
        · simp [h1, h2, h3]

/-- Whenever the profile flow hands the query on (`shouldReturn = false`), it has not called the next
handler, counted or written anything — so a query is never served twice. -/
theorem prof_handoff_is_clean (mw : S_ratelimitmw_Middleware) (ri : Option S_agd_RequestInfo) (e : ProfEnv)
    (er : Option String) (tr : List (String × List String)) (h : profServe mw ri e = some (false, er, tr)) :
    er = none ∧ "next.ServeDNS" ∉ names tr ∧ "rw.WriteMsg" ∉ names tr ∧ "Ratelimiter.CountResponses" ∉ names tr := by
  obtain ⟨⟨p, d⟩, ck, nw, nx, e1, rn, wr, e2⟩ := e
  simp only [profServe, serveWithProfileRatelimiting] at h
  cases p with
  | none => simp at h; obtain ⟨rfl, rfl⟩ := h; simp [names]
  | some p =>
    by_cases h2 : ck = 2
    · simp [h2] at h
    · by_cases h3 : ck = 3
      · simp [h3] at h; obtain ⟨rfl, rfl⟩ := h; simp [names]
      · by_cases h1 : ck = 1
        · cases nx <;> cases rn <;> cases wr <;> simp [h1] at h
        · simp [h1, h2, h3] at h

/-- A profile without a custom limit (`GlobalRatelimiter`) always answers `UseGlobal`. -/
theorem globalRatelimiter_always_useGlobal (x : S_agd_GlobalRatelimiter) : GlobalRatelimiter_Check x = resUseGlobal := by
  simp [GlobalRatelimiter_Check, resUseGlobal]

def presCode : Agd.Ratelimit.PRes → Int
  | .pass => resPass
  | .drop => resDrop
  | .useGlobal => resUseGlobal

/-- `DefaultRatelimiter.Check` is the hand model's `ProfLim.check`, for every limiter state, time and
client, when the subnet set and the request counter answer as the model's do. -/
theorem profile_check_tr (r : S_agd_DefaultRatelimiter) (p : Agd.Ratelimit.ProfLim) (now : Int) (a : Agd.Ratelimit.Addr) :
    (DefaultRatelimiter_Check r (p.subnets.length : Int) (p.subnets.any (fun s => s.contains a)) (p.ctr.add now).2).1 =
      presCode (p.check now a).2 := by
  have hl : decide ((p.subnets.length : Int) > 0) = !p.subnets.isEmpty := by
    cases p.subnets <;> simp <;> omega
  unfold DefaultRatelimiter_Check Agd.Ratelimit.ProfLim.check
  rw [hl]
  generalize p.subnets.any (fun s => s.contains a) = inSet
  generalize p.subnets.isEmpty = emp
  cases emp <;> cases inSet <;> cases hab : (p.ctr.add now).2 <;>
    simp [presCode, resPass, resDrop, resUseGlobal, hab]

/-- A client outside the profile's subnets is not counted against the profile's limit; everyone else is
counted exactly once per check. -/
theorem profile_check_counts_iff (r : S_agd_DefaultRatelimiter) (n : Int) (inSet above : Bool) :
    let res := DefaultRatelimiter_Check r n inSet above
    ((names res.2).count "Add" = if (decide (n > 0) && !inSet) then 0 else 1) ∧
    (res.1 = resUseGlobal ↔ (n > 0 ∧ inSet = false)) ∧ (res.1 = resDrop → above = true) := by
  by_cases hn : n > 0 <;> cases inSet <;> cases above <;>
    simp [DefaultRatelimiter_Check, names, hn, resUseGlobal, resDrop]

/-- The profile limiter weighs a response as `⌊len / est⌋` further checks, like the global one. -/
theorem profile_countResponses_weight (r : S_agd_DefaultRatelimiter) (est len : Nat) (he : 0 < est) (hl : len < 2 ^ 64)
    (hest : r.respSzEst = (est : Int)) :
    DefaultRatelimiter_CountResponses r (len : Int) =
      some (List.replicate (Agd.Ratelimit.respWeight est len) ("Check", ["_", "_", "_"])) := by
  have hd : Int.tdiv (len : Int) (est : Int) = ((len / est : Nat) : Int) := by
    rw [Int.tdiv_eq_ediv_of_nonneg (by omega)]; simp
  have hz : ¬ ((est : Int) = 0) := by omega
  simp only [DefaultRatelimiter_CountResponses, wrap64_of_nat len hl, hest, goDiv?, hz, if_false, hd,
    flatten_replicate_singleton, Agd.Ratelimit.respWeight, Int.toNat_natCast, List.nil_append]

/-- Every environment of `serveWithGlobalRatelimiting`, bundled. -/
structure GlobEnv where
  lim : Bool × Bool × Option String
  errf : Option String
  nextAllow : Option String
  nw : Option S_dnsserver_NonWriterResponseWriter
  next : Option String
  msg : AbsPtr
  write : Option String

def globServe (mw : S_ratelimitmw_Middleware) (ri : Option S_agd_RequestInfo) (e : GlobEnv) :=
  serveWithGlobalRatelimiting mw ri e.lim e.errf e.nextAllow e.nw e.next e.msg e.write

/-- Global flow, dropped: no response, nothing served or counted. -/
theorem glob_drop_no_response (mw : S_ratelimitmw_Middleware) (ri : Option S_agd_RequestInfo) (e : GlobEnv) (al : Bool)
    (hl : e.lim = (true, al, none)) :
    (globServe mw ri e).1 = none ∧
      names (globServe mw ri e).2 = ["limiter.IsRateLimited", "metrics.OnRateLimited"] := by
  simp [globServe, serveWithGlobalRatelimiting, hl, names]

/-- Global flow, allowlisted: served directly, not counted. -/
theorem glob_allowlisted_served_uncounted (mw : S_ratelimitmw_Middleware) (ri : Option S_agd_RequestInfo) (e : GlobEnv)
    (hl : e.lim = (false, true, none)) :
    (globServe mw ri e).1 = e.nextAllow ∧ "next.ServeDNS" ∈ names (globServe mw ri e).2 ∧
      "limiter.CountResponses" ∉ names (globServe mw ri e).2 := by
  simp [globServe, serveWithGlobalRatelimiting, hl, names]

/-- Global flow, passed: asked, served into a buffer, weighed on the *global* limiter, then written. -/
theorem glob_pass_counted_then_written (mw : S_ratelimitmw_Middleware) (ri : Option S_agd_RequestInfo) (e : GlobEnv)
    (hl : e.lim = (false, false, none)) (hn : e.next = none) (hr : e.msg = true) :
    (globServe mw ri e).1 = e.write ∧ names (globServe mw ri e).2 =
      ["limiter.IsRateLimited", "next.ServeDNS", "limiter.CountResponses", "rw.WriteMsg"] := by
  simp [globServe, serveWithGlobalRatelimiting, hl, hn, hr, names]

example : (Backoff_IsRateLimited ⟨1024, 1000, 300, 10, 24, 3000, 10, 48, true⟩ none 1 (false, none) "k" false true true).1 = true := by
  decide

/-! ## Non-vacuity of the hypotheses -/

example : CfgMatches ⟨1024, 1000, 300, 10, 24, 3000, 10, 48, true⟩
    { count := 1000, period := 60, duration := 60, est := 1024, v4count := 300, v4ivl := 10, v4len := 24,
      v6count := 3000, v6ivl := 10, v6len := 48, refuseAny := true, allow := [] } := by
  simp [CfgMatches]

example : Backoff_CountResponses ⟨1024, 1000, 300, 10, 24, 3000, 10, 48, true⟩ 3000 =
    some [("IsRateLimited", ["_", "_", "_"]), ("IsRateLimited", ["_", "_", "_"])] := by
  have h := countResponses_weight ⟨1024, 1000, 300, 10, 24, 3000, 10, 48, true⟩ 1024 3000 (by omega) (by omega) rfl
  simpa [Agd.Ratelimit.respWeight] using h

example : (Backoff_hasHitRateLimit ⟨1024, 1000, 300, 10, 24, 3000, 10, 48, true⟩ "1.2.3.0/24" 300 10 (false, false) none true none).2
    = [("Get", ["1.2.3.0/24"]), ("NewRequestCounter", ["300", "10"]), ("SetDefault", ["1.2.3.0/24", "_"]), ("Add", ["_"]),
       ("incBackoff", ["1.2.3.0/24"])] := by decide

example : (libServe ⟨none⟩ ⟨true, true, none, true, 53, (true, false, none), none, none, none, none, true, none⟩) =
    (none, [("IsRateLimited", ["_", "_", "_"]), ("OnRateLimited", ["_", "_", "_"])]) := by decide

example : DefaultRatelimiter_Check ⟨none, 1024, 5⟩ 2 false true = (resUseGlobal, []) := by decide

end Agd.Tie.TrC09

#print axioms Agd.Tie.TrC09.translation_complete
#print axioms Agd.Tie.TrC09.backoff_drops_without_counting
#print axioms Agd.Tie.TrC09.allowlisted_passes_uncounted
#print axioms Agd.Tie.TrC09.refuse_any_for_everyone
#print axioms Agd.Tie.TrC09.counted_with_family_limits
#print axioms Agd.Tie.TrC09.counter_add
#print axioms Agd.Tie.TrC09.counter_add_is_ringAdd
#print axioms Agd.Tie.TrC09.isBackoff_tr
#print axioms Agd.Tie.TrC09.isBackoff_lookup
#print axioms Agd.Tie.TrC09.isRateLimited_tr
#print axioms Agd.Tie.TrC09.isRateLimited_counts_with_model_limits
#print axioms Agd.Tie.TrC09.hasHit_is_counter_verdict
#print axioms Agd.Tie.TrC09.hasHit_incBackoff_iff_above
#print axioms Agd.Tie.TrC09.hasHit_counter_creation
#print axioms Agd.Tie.TrC09.incBackoff_effects
#print axioms Agd.Tie.TrC09.subnetKey_family_len
#print axioms Agd.Tie.TrC09.subnetKey_no_panic_iff
#print axioms Agd.Tie.TrC09.flatten_replicate_singleton
#print axioms Agd.Tie.TrC09.wrap64_of_nat
#print axioms Agd.Tie.TrC09.countResponses_weight
#print axioms Agd.Tie.TrC09.countResponses_panics_iff
#print axioms Agd.Tie.TrC09.validateAddr_ok_iff
#print axioms Agd.Tie.TrC09.isEnabledForProto_tr
#print axioms Agd.Tie.TrC09.lib_other_proto_passthrough
#print axioms Agd.Tie.TrC09.lib_port_zero_dropped
#print axioms Agd.Tie.TrC09.lib_drop_no_response
#print axioms Agd.Tie.TrC09.lib_allowlisted_served_uncounted
#print axioms Agd.Tie.TrC09.lib_pass_counted_then_written
#print axioms Agd.Tie.TrC09.lib_write_only_after_pass
#print axioms Agd.Tie.TrC09.lib_effect_is_model
#print axioms Agd.Tie.TrC09.mw_other_proto_passthrough
#print axioms Agd.Tie.TrC09.mw_profile_first_global_iff
#print axioms Agd.Tie.TrC09.prof_none_uses_global
#print axioms Agd.Tie.TrC09.prof_drop_no_response
#print axioms Agd.Tie.TrC09.prof_useGlobal_defers
#print axioms Agd.Tie.TrC09.prof_pass_counts_on_profile_limiter
#print axioms Agd.Tie.TrC09.prof_no_panic_iff
#print axioms Agd.Tie.TrC09.prof_handoff_is_clean
#print axioms Agd.Tie.TrC09.globalRatelimiter_always_useGlobal
#print axioms Agd.Tie.TrC09.profile_check_tr
#print axioms Agd.Tie.TrC09.profile_check_counts_iff
#print axioms Agd.Tie.TrC09.profile_countResponses_weight
#print axioms Agd.Tie.TrC09.glob_drop_no_response
#print axioms Agd.Tie.TrC09.glob_allowlisted_served_uncounted
#print axioms Agd.Tie.TrC09.glob_pass_counted_then_written
