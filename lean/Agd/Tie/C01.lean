import Agd.Gen.C01
/-! Tie theorems for C01: the source facts `Agd/Model/Serve.lean` was written against still hold in the repository. -/
namespace Agd.Tie.C01
open Agd.Gen.C01
set_option maxRecDepth 4096

/-- The five guards of `acceptMsg`, in the order `Agd.Serve.acceptMsg` tests them. -/
theorem accept_conds_src : accept_conds = "m.Response | m.Opcode != dns.OpcodeQuery && m.Opcode != dns.OpcodeNotify | len(m.Question) != 1 | len(m.Answer) > 1 | len(m.Ns) > 1" := by decide
/-- …and what each guard returns (ignore, NOTIMP, FORMERR ×3, accept). -/
theorem accept_returns_src : accept_returns = "dns.MsgIgnore | dns.MsgRejectNotImplemented | dns.MsgReject | dns.MsgReject | dns.MsgReject | dns.MsgAccept" := by decide
/-- `serveDNSMsgInternal` switches on exactly these three non-accept actions. -/
theorem serve_cases_src : serve_cases = "dns.MsgReject | dns.MsgRejectNotImplemented | dns.MsgIgnore" := by decide
/-- Order of calls in `serveDNSMsgInternal`: error responses, one write, handler, SERVFAIL + EDE, one write. -/
theorem serve_err_rcodes_src : serve_err_rcodes = "genErrorResponse,genErrorResponse,WriteMsg,ServeDNS,genErrorResponse,addEDE,WriteMsg" := by decide
theorem serve_formerr_args_src : serve_formerr_args = "req, dns.RcodeFormatError" := by decide
theorem serve_notimp_args_src : serve_notimp_args = "req, dns.RcodeNotImplemented" := by decide
theorem serve_servfail_args_src : serve_servfail_args = "req, dns.RcodeServerFailure" := by decide
/-- `serveDNS` unpacks exactly the slice it is given. -/
theorem serve_unpack_arg_src : serve_unpack_arg = "buf" := by decide
/-- `written` means "a response was recorded" (also when the socket write failed). -/
theorem written_def_src : written_def = "resp != nil" := by decide
/-- `genErrorResponse` is `SetRcode(req, code)`. -/
theorem gen_error_args_src : gen_error_args = "req, code" := by decide
theorem ede_conds_src : ede_conds = "reqOpt == nil | respOpt == nil" := by decide
/-- The UDP worker sees exactly the `n` bytes of its own datagram. -/
theorem udp_packet_args_src : udp_packet_args = "reqCtx, (*bufPtr)[:n], conn, sess" := by decide
/-- Datagrams shorter than a header are dropped before `Unpack`. -/
theorem udp_read_conds_src : udp_read_conds = "err != nil | err != nil | n < DNSHeaderSize" := by decide
/-- TCP/DoT close the connection exactly when nothing was written. -/
theorem tcp_not_written_src : tcp_not_written = "!written" := by decide
/-- The TCP request buffer is cut to the announced length. -/
theorem tcp_buffer_slice_src : tcp_buffer_slice = "buf[:length]" := by decide
/-- DoQ unpacks exactly the bytes of its own stream (after the fix for the `buf[2:]` defect). -/
theorem quic_unpack_arg_src : quic_unpack_arg = "buf[2:n]" := by decide
theorem quic_read_conds_src : quic_read_conds = "n < DNSHeaderSize | err != nil | packetLen == wantLen | err != nil" := by decide
/-- DoQ: read error / invalid message ⇒ protocol error; nothing written ⇒ synthesised SERVFAIL. -/
theorem quic_stream_conds_src : quic_stream_conds = "err != nil | !validQUICMsg(msg) | !written | err != nil" := by decide
theorem quic_servfail_args_src : quic_servfail_args = "msg, dns.RcodeServerFailure" := by decide
theorem quic_valid_conds_src : quic_valid_conds = "opt != nil | option.Option() == dns.EDNS0TCPKEEPALIVE" := by decide
/-- DNSCrypt: nothing written ⇒ synthesised SERVFAIL (since the C08 repair the request's UDP size is
lowered to the configured maximum before the library writes). -/
theorem dnscrypt_conds_src : dnscrypt_conds = "written | opt != nil && network == NetworkUDP" := by decide
theorem dnscrypt_servfail_args_src : dnscrypt_servfail_args = "r, dns.RcodeServerFailure" := by decide
/-- DoH: bad request ⇒ 400, nothing written ⇒ 500. -/
theorem doh_conds_src : doh_conds = "err != nil | !written | err != nil" := by decide
theorem doh_errors_src : doh_errors = "httpRequestToMsg,serveDNS,writeResponse" := by decide
/-- `NonWriterResponseWriter.WriteMsg` never fails. -/
theorem nonwriter_keeps_src : nonwriter_keeps = "nil" := by decide
theorem recorder_resp_src : recorder_resp = "resp" := by decide
theorem json_defaults_type_src : json_defaults_type = "q, \"type\", dns.TypeA, dns.StringToType" := by decide
theorem json_defaults_class_src : json_defaults_class = "q, \"qc\", dns.ClassINET, dns.StringToClass" := by decide
theorem json_bool_cases_src : json_bool_cases = "\"1\",\"true\",\"True\" | \"0\",\"false\",\"False\" | \"\" | default" := by decide
/-- `ServerBase.dispose` disposes for exactly the two directly writing writers (`Agd.Serve.disposeKinds`). -/
theorem dispose_cases_src : dispose_cases = "*tcpResponseWriter,*udpResponseWriter | default" := by decide
/-- `serveDNSMsg`: handler, metrics, then the one disposal (`Agd.Serve.inServe`). -/
theorem serve_msg_life_src : serve_msg_life = "serveDNSMsgInternal,OnRequest,dispose" := by decide
/-- UDP and TCP/DoT writers normalise, pack and send inside `WriteMsg` and dispose of nothing themselves. -/
theorem udp_write_life_src : udp_write_life = "normalize,PackBuffer,WriteToSession" := by decide
theorem tcp_write_life_src : tcp_write_life = "normalizeTCP,addTCPKeepAlive,packWithPrefix,Write" := by decide
/-- DoH: the recorded response is read by `writeResponse` and only then disposed of (`Agd.Serve.lifeOf`). -/
theorem doh_life_src : doh_life = "serveDNS,Msg,writeResponse,Dispose" := by decide
theorem doh_write_life_src : doh_write_life = "normalizeTCP,Pack,dnsMsgToJSON,Write" := by decide
/-- DoQ: normalise, pack, write to the stream, then dispose. -/
theorem quic_life_src : quic_life = "serveDNSMsg,Msg,normalizeTCP,packWithPrefix,Write,Dispose" := by decide
/-- DNSCrypt: normalise and hand to the library; never disposed of. -/
theorem dnscrypt_life_src : dnscrypt_life = "serveDNSMsg,Msg,normalize,WriteMsg" := by decide

/-! Deepening: accept loop, byte-buffer lifetimes, DoQ FIN, JSON `ct`, defaults. -/

/-- `acceptUDPMsg` swallows non-critical read errors and `dns.ErrShortRead` (`Agd.Serve.udpAcceptFails true`). -/
theorem udp_accept_filter_src : udp_accept_filter = "err != nil | isNonCriticalNetError(err) || errors.Is(err, dns.ErrShortRead)" := by decide
/-- `serveUDP` runs while started and ends on the first error of `acceptUDPMsg` (`Agd.Serve.udpLoop`). -/
theorem udp_loop_conds_src : udp_loop_conds = "err != nil | !s.isStarted()" := by decide
theorem udp_loop_for_src : udp_loop_for = "s.isStarted()" := by decide
/-- UDP request buffer: taken, read into, put back on a read error; otherwise served and only then put back
(`Agd.Serve.reqBufLife .udp`). -/
theorem udp_req_buf_life_src : udp_req_buf_life = "Get,readUDPMsg,Put,Submit,serveUDPPacket,Put" := by decide
/-- `serveUDPPacket`: completion is signalled and panics are contained whatever `serveDNS` does. -/
theorem udp_serve_calls_src : udp_serve_calls = "Done,handlePanicAndRecover,serveDNS" := by decide
/-- TCP/DoT request buffer: served, then put back (`Agd.Serve.reqBufLife .tcp`). -/
theorem tcp_req_buf_life_src : tcp_req_buf_life = "readTCPMsg,Submit,serveTCPMessage,Put" := by decide
/-- `readTCPMsg`: two length octets, a buffer of that length, exactly that many octets (`Agd.Serve.tcpFrames`). -/
theorem tcp_read_calls_src : tcp_read_calls = "Read,getTCPBuffer,ReadFull,Put" := by decide
/-- UDP and TCP writers put the response buffer back only in the deferred error branch
(`Agd.Serve.respBufLife`). -/
theorem udp_resp_buf_life_src : udp_resp_buf_life = "Get,Put,PackBuffer,WriteToSession" := by decide
theorem udp_resp_buf_put_cond_src : udp_resp_buf_put_cond = "err != nil | err != nil | err != nil" := by decide
theorem tcp_resp_buf_life_src : tcp_resp_buf_life = "Get,Put,packWithPrefix,Write" := by decide
theorem tcp_resp_buf_put_cond_src : tcp_resp_buf_put_cond = "err != nil | err != nil | err != nil" := by decide
/-- DoQ: the request buffer's `Put` is deferred in `readQUICMsg`; the stream is closed (deferred, first
statement) whatever happens; the response buffer's `Put` is deferred before packing and writing. -/
theorem quic_req_buf_life_src : quic_req_buf_life = "Get,Put,readAll,Unpack" := by decide
theorem quic_resp_buf_life_src : quic_resp_buf_life = "OnCloserError,readQUICMsg,Get,Put,packWithPrefix,Write" := by decide
/-- The JSON API path answers in wire format iff `ct` is the DoH MIME type, and stays a JSON request
(`Agd.Serve.serveJSONWire`). -/
theorem doh_ct_cond_src : doh_ct_cond = "parts[0] == \"\" | desiredCt == MimeTypeDoH" := by decide
theorem doh_ct_returns_src : doh_ct_returns = "false, false, \"\" | true, false, MimeTypeDoH | true, true, MimeTypeDoH | true, true, MimeTypeJSON | false, false, \"\"" := by decide
/-- Default UDP read buffer (`Agd.Serve.udpBufSize` = `dns.MinMsgSize`). -/
theorem udp_size_default_src : udp_size_default = "cmp.Or(conf.UDPSize, dns.MinMsgSize)" := by decide
/-- The non-writer keeps the last response written and hands that one out (`Agd.Serve.lastOr`). -/
theorem nonwriter_res_src : nonwriter_res = "resp" := by decide
theorem nonwriter_msg_src : nonwriter_msg = "r.res" := by decide
/-- The DoQ read buffer: `dns.MaxMsgSize + 2` octets, length prefix and largest message (`Agd.Serve.quicBufSize`);
`readAll` fills `buf[n:]`, stops with `io.ErrShortBuffer` when the buffer is full before a `Read`, adds
what a `Read` returned before looking at its error, and turns `io.EOF` into nil (`Agd.Serve.readAll`). -/
theorem quic_pool_size_src : quic_pool_size = "dns.MaxMsgSize + 2" := by decide
theorem quic_buf_slice_src : quic_buf_slice = "buf[:quicBytePoolSize]" := by decide
theorem quic_readall_args_src : quic_readall_args = "stream, buf" := by decide
theorem readall_conds_src : readall_conds = "n == len(buf) | err != nil | err == io.EOF" := by decide
theorem readall_returns_src : readall_returns = "n, io.ErrShortBuffer | n, err" := by decide
theorem readall_read_args_src : readall_read_args = "buf[n:]" := by decide
theorem readall_count_src : readall_count = "len,Read" := by decide

/-! Round 3: the HTTP request around a DoH query and the client's address. -/

/-- `httpHandler.remoteAddr` cuts the zone off the host before `netutil.ParseIP` sees it and keeps it in
the returned address (`Agd.Serve.remoteParses true`; the code before the fix called `ParseIP` on the
host as split, which panics on `fe80::1%eth0`). -/
theorem remote_addr_calls_src : remote_addr_calls = "SplitHostPort,Cut,ParseIP,NetworkFromAddr" := by decide
theorem remote_addr_cut_args_src : remote_addr_cut_args = "ipStr, \"%\"" := by decide
theorem remote_addr_parse_args_src : remote_addr_parse_args = "ipStr" := by decide
theorem remote_addr_returns_src : remote_addr_returns = "&net.UDPAddr{IP: ip, Port: int(port), Zone: zone} | &net.TCPAddr{IP: ip, Port: int(port), Zone: zone}" := by decide
/-- `ServeHTTP` recovers panics, then routes on `isDoH` alone: `serveDoH` or 404 (`Agd.Serve.panicked`, `serveDoHReq`). -/
theorem serve_http_calls_src : serve_http_calls = "handlePanicAndRecover,isDoH,serveDoH,Error" := by decide
/-- POST: the whole body; GET: the one `dns` value, unpadded base64url (`Agd.Serve.dohFront`). -/
theorem doh_post_calls_src : doh_post_calls = "ReadAll" := by decide
theorem doh_get_decode_src : doh_get_decode = "nil, fmt.Errorf(\"no 'dns' query parameter found\") | nil, fmt.Errorf(\"multiple 'dns' query values found\") | base64.RawURLEncoding.DecodeString(b64[0])" := by decide
theorem doh_path_consts_src : doh_path_consts = "\"/dns-query\"" := by decide
theorem json_path_const_src : json_path_const = "\"/resolve\"" := by decide

/-! Round 4: fault and life-cycle paths. -/

/-- Every per-request entry point recovers from a panic of the handler before anything else can be
skipped (`Agd.Serve.serveMsgF true`): UDP (`udp_serve_calls`), TCP/DoT, DoH (`serve_http_calls`), DoQ and —
since the fix — DNSCrypt, whose library does not recover on its own goroutines. -/
theorem dnscrypt_recover_calls_src : dnscrypt_recover_calls = "requestContext,handlePanicAndRecover,serveDNSMsg,WriteMsg" := by decide
theorem tcp_msg_recover_calls_src : tcp_msg_recover_calls = "Done,handlePanicAndRecover,serveDNS,OnCloserError" := by decide
theorem quic_stream_recover_calls_src : quic_stream_recover_calls = "Done,handlePanicAndRecover,serveQUICStream" := by decide
/-- `Shutdown` releases the worker pool after waiting for the workers; every `Start` of a pooled server
reopens it before the listeners are created (`Agd.Serve.lStep true true`). -/
theorem dns_start_pool_calls_src : dns_start_pool_calls = "Reboot,listenUDP,listenTCP" := by decide
theorem tls_start_pool_calls_src : tls_start_pool_calls = "Reboot,listenTLS" := by decide
theorem quic_start_pool_calls_src : quic_start_pool_calls = "Reboot,listenQUIC" := by decide
theorem dns_shutdown_pool_calls_src : dns_shutdown_pool_calls = "shutdown,unblockTCPConns,waitShutdown,Release" := by decide

/-! Strengthening round: the life cycle of a connection (`Agd.Serve.cStep`, `conn_answered_before_close`). -/

/-- A DoQ connection has the shape of a TCP connection: the clean-up of `serveQUICConn` waits for the streams
(`streamWg.Wait()`) before it closes the connection, and a stream is counted (`streamWg.Add(1)`) by the accept loop
before its worker is submitted.  (`serveTCPConn`, `acceptTCPMsg` and `serveTCPMessage` themselves are tied as
translated definitions, `Agd.Tie.TrC01.serveTCPConn_waits_before_close`.) -/
theorem quic_conn_exit_calls_src : quic_conn_exit_calls = "Wait,closeQUICConn,Add,Add,Submit" := by decide
/-- `Shutdown` ends the read loops of the open TCP/DoT connections by expiring their read deadline; it does not
close them, so the queries in flight are answered (`endRead`, not `closed`). -/
theorem tcp_unblock_calls_src : tcp_unblock_calls = "SetReadDeadline" := by decide
/-- DoH: the HTTP server is shut down gracefully (`http.Server.Shutdown` after the listener's `Close`), which lets the
requests in flight finish. -/
theorem doh_shutdown_calls_src : doh_shutdown_calls = "Close,Shutdown,shutdownH3" := by decide

end Agd.Tie.C01
