import Agd.Gen.C10
/-! Tie theorems for C10: the source facts the access model was written against still hold in the repository. -/
set_option maxRecDepth 8192
namespace Agd.Tie.C10
open Agd.Gen.C10

/-- Order of the early exits of the handler: spoofed port, global access (over the request and the client address alone), profile access, device result, and only then the ECS error. -/
def wrap_if_conds_expected : String := "raddr.Port() == 0 | mw.isBlockedGlobally(ctx, req, remoteIP) | mw.isBlockedByProfile(ctx, ri, req, raddr) | !cont | locErr != nil"
theorem wrap_if_conds_src : wrap_if_conds = wrap_if_conds_expected := by decide

/-- A blocked request returns `nil` before the device finder's error is returned (`serveDeviceErr`), before `serveLocationErr` (FORMERR; both go through the rate limiter since the C09 repair) and before `serveWithRatelimiting` (the next stage). -/
def wrap_returns_expected : String := "nil | nil | nil | mw.serveDeviceErr(ctx, rw, req, ri, err) | mw.serveLocationErr(ctx, rw, req, ri, locErr) | mw.serveWithRatelimiting(ctx, rw, req, ri, next) | dnsserver.HandlerFunc(f)"
theorem wrap_returns_src : wrap_returns = wrap_returns_expected := by decide

/-- Source order of the calls: the global access check precedes the location and the device lookup (fifth deepening), the profile check precedes the handling of the device result, the two error paths, `ContextWithRequestInfo` and the next stage. -/
def wrap_ctx_calls_expected : String := "isBlockedGlobally,location,newRequestInfo,isBlockedByProfile,handleDeviceResult,serveDeviceErr,serveLocationErr,ContextWithRequestInfo,serveWithRatelimiting"
theorem wrap_ctx_calls_src : wrap_ctx_calls = wrap_ctx_calls_expected := by decide

/-- The address the global check sees is the peer's address as the transport reports it. -/
def wrap_remote_ip_expected : String := "raddr.Addr()"
theorem wrap_remote_ip_src : wrap_remote_ip = wrap_remote_ip_expected := by decide

/-- Only the unknown-dedicated and error results stop the handler. -/
def device_cases_expected : String := "*agd.DeviceResultUnknownDedicated | *agd.DeviceResultError"
theorem device_cases_src : device_cases = device_cases_expected := by decide

/-- … the first silently, the second with its error; everything else continues. -/
def device_returns_expected : String := "false, nil | false, res.Err | true, nil"
theorem device_returns_src : device_returns = device_returns_expected := by decide

/-- `isBlockedGlobally`: global address, global name — over the client address and the question of the request itself. -/
def access_if_conds_expected : String := "mw.accessManager.IsBlockedIP(remoteIP) | mw.accessManager.IsBlockedHost(host, q.Qtype)"
theorem access_if_conds_src : access_if_conds = access_if_conds_expected := by decide

/-- … with these verdicts. -/
def access_returns_expected : String := "true | true | false"
theorem access_returns_src : access_returns = access_returns_expected := by decide

/-- The global name check sees `NormalizeQueryDomain` of the question name (root stays "."). -/
def access_host_expected : String := "agdnet.NormalizeQueryDomain(q.Name)"
theorem access_host_src : access_host = access_host_expected := by decide

/-- … of the first (only) question. -/
def access_question_expected : String := "req.Question[0]"
theorem access_question_src : access_question = access_question_expected := by decide

/-- `isBlockedByProfile`: missing profile, the profile's settings. -/
def access_prof_if_conds_expected : String := "p == nil | p.Access.IsBlocked(req, raddr, ri.Location)"
theorem access_prof_if_conds_src : access_prof_if_conds = access_prof_if_conds_expected := by decide

/-- … with these verdicts. -/
def access_prof_returns_expected : String := "false | true | false"
theorem access_prof_returns_src : access_prof_returns = access_prof_returns_expected := by decide

/-- Only `DeviceResultOK` yields a profile. -/
def device_data_returns_expected : String := "r.Profile, r.Device | nil, nil"
theorem device_data_returns_src : device_data_returns = device_data_returns_expected := by decide

/-- `DefaultProfile.IsBlocked` = nets/ASNs or name rules. -/
def profile_is_blocked_expected : String := "p.isBlockedByNets(ip, l) || p.isBlockedByHostsEng(req)"
theorem profile_is_blocked_src : profile_is_blocked = profile_is_blocked_expected := by decide

/-- Allowed ASN or subnet is tested first … -/
def nets_if_cond_expected : String := "matchASNs(p.allowedASN, l) || matchNets(p.allowedNets, ip)"
theorem nets_if_cond_src : nets_if_cond = nets_if_cond_expected := by decide

/-- … and wins; otherwise blocked ASN or subnet. -/
def nets_returns_expected : String := "false | matchASNs(p.blockedASN, l) || matchNets(p.blockedNets, ip)"
theorem nets_returns_src : nets_returns = nets_returns_expected := by decide

/-- No location, no ASN match. -/
def match_asns_expected : String := "l != nil && slices.Contains(asns, l.ASN)"
theorem match_asns_src : match_asns = match_asns_expected := by decide

/-- `matchNets` is `any Contains`. -/
def match_nets_if_expected : String := "n.Contains(ip)"
theorem match_nets_if_src : match_nets_if = match_nets_if_expected := by decide

def match_nets_returns_expected : String := "true | false"
theorem match_nets_returns_src : match_nets_returns = match_nets_returns_expected := by decide

/-- `EmptyProfile` blocks nothing. -/
def empty_profile_expected : String := "false"
theorem empty_profile_src : empty_profile = empty_profile_expected := by decide

/-- `Global.IsBlockedIP` is membership in the subnet set, of the address without its IPv6 zone
(`Global.isBlockedIPZ`). -/
def global_ip_expected : String := "g.blockedNets.Contains(ip.WithZone(\"\"))"
theorem global_ip_src : global_ip = global_ip_expected := by decide

/-- `DefaultProfile.IsBlocked` matches the address without its IPv6 zone (`ProfAcc.isBlockedZ`). -/
def profile_ip_expected : String := "rAddr.Addr().WithZone(\"\")"
theorem profile_ip_src : profile_ip = profile_ip_expected := by decide

/-- Wrapper logic around `MatchRequest` (global). -/
def global_host_if_expected : String := "matched && res.NetworkRule != nil"
theorem global_host_if_src : global_host_if = global_host_if_expected := by decide

def global_host_returns_expected : String := "!res.NetworkRule.Whitelist | matched"
theorem global_host_returns_src : global_host_returns = global_host_returns_expected := by decide

/-- Global rules go through `lowerRule` when the engine is built. -/
def global_lower_expected : String := "h"
theorem global_lower_src : global_lower = global_lower_expected := by decide

/-- Wrapper logic around `MatchRequest` (profile). -/
def engine_if_expected : String := "matched && res.NetworkRule != nil"
theorem engine_if_src : engine_if = engine_if_expected := by decide

def engine_returns_expected : String := "!res.NetworkRule.Whitelist | matched"
theorem engine_returns_src : engine_returns = engine_returns_expected := by decide

/-- The profile engine sees `NormalizeQueryDomain(q.Name)`. -/
def engine_host_expected : String := "q.Name"
theorem engine_host_src : engine_host = engine_host_expected := by decide

/-- Profile rules go through `lowerRule` when the engine is built. -/
def engine_lower_expected : String := "h"
theorem engine_lower_src : engine_lower = engine_lower_expected := by decide

/-- `NormalizeDomain`: one final dot removed, lower case. -/
def norm_domain_expected : String := "strings.ToLower(strings.TrimSuffix(fqdn, \".\"))"
theorem norm_domain_src : norm_domain = norm_domain_expected := by decide

/-- `NormalizeQueryDomain` keeps the root. -/
def norm_query_if_expected : String := "host == \".\""
theorem norm_query_if_src : norm_query_if = norm_query_if_expected := by decide

def norm_query_returns_expected : String := "host | NormalizeDomain(host)"
theorem norm_query_returns_src : norm_query_returns = norm_query_returns_expected := by decide

/-- The server answers a handler error with SERVFAIL (`Effect.servfail`): the third `genErrorResponse` of `serveDNSMsgInternal`, under `err != nil` after `handler.ServeDNS`. -/
def srv_err_if_conds_expected : String := "resp != nil | err != nil | err != nil | isNonCriticalNetError(err) | err != nil"
theorem srv_err_if_conds_src : srv_err_if_conds = srv_err_if_conds_expected := by decide

def srv_err_resp_expected : String := "req, dns.RcodeServerFailure"
theorem srv_err_resp_src : srv_err_resp = srv_err_resp_expected := by decide

/-- The access check sees the client's location: it is stored in the request information first … -/
def wrap_loc_assign_expected : String := "loc, ecs"
theorem wrap_loc_assign_src : wrap_loc_assign = wrap_loc_assign_expected := by decide

/-- … and it is the GeoIP data of the remote address (not of the ECS subnet) … -/
def loc_client_expected : String := "mw.locationData(ctx, remoteIP, \"client\")"
theorem loc_client_src : loc_client = loc_client_expected := by decide

/-- … returned also when the ECS option is malformed. -/
def loc_returns_expected : String := "loc, nil, fmt.Errorf(\"getting ecs info: %w\", err) | loc, ecs, nil"
theorem loc_returns_src : loc_returns = loc_returns_expected := by decide

/-- `newRequestInfo` overwrites the pooled structure from the current request (`fillInfo`). -/
def ri_host_expected : String := "agdnet.NormalizeDomain(q.Name)"
theorem ri_host_src : ri_host = ri_host_expected := by decide

def ri_qtype_expected : String := "q.Qtype"
theorem ri_qtype_src : ri_qtype = ri_qtype_expected := by decide

def ri_qclass_expected : String := "q.Qclass"
theorem ri_qclass_src : ri_qclass = ri_qclass_expected := by decide

def ri_remote_expected : String := "raddr.Addr()"
theorem ri_remote_src : ri_remote = ri_remote_expected := by decide

def ri_location_reset_expected : String := "nil"
theorem ri_location_reset_src : ri_location_reset = ri_location_reset_expected := by decide

def ri_ecs_reset_expected : String := "nil"
theorem ri_ecs_reset_src : ri_ecs_reset = ri_ecs_reset_expected := by decide

/-- `acceptMsg`: response flag, opcode, one question, at most one answer, at most one authority record — in this order. -/
def accept_if_conds_expected : String := "m.Response | m.Opcode != dns.OpcodeQuery && m.Opcode != dns.OpcodeNotify | len(m.Question) != 1 | len(m.Answer) > 1 | len(m.Ns) > 1"
theorem accept_if_conds_src : accept_if_conds = accept_if_conds_expected := by decide

/-- … with these verdicts. -/
def accept_returns_expected : String := "dns.MsgIgnore | dns.MsgRejectNotImplemented | dns.MsgReject | dns.MsgReject | dns.MsgReject | dns.MsgAccept"
theorem accept_returns_src : accept_returns = accept_returns_expected := by decide

/-- `serveDNSMsgInternal` handles the three non-accept verdicts before it calls the handler. -/
def srv_accept_cases_expected : String := "dns.MsgReject | dns.MsgRejectNotImplemented | dns.MsgIgnore"
theorem srv_accept_cases_src : srv_accept_cases = srv_accept_cases_expected := by decide

/-- A rejected message is answered FORMERR … -/
def srv_reject_resp_expected : String := "req, dns.RcodeFormatError"
theorem srv_reject_resp_src : srv_reject_resp = srv_reject_resp_expected := by decide

/-- … an unsupported opcode NOTIMP. -/
def srv_notimp_resp_expected : String := "req, dns.RcodeNotImplemented"
theorem srv_notimp_resp_src : srv_notimp_resp = srv_notimp_resp_expected := by decide

/-- DoQ: when nothing was written … -/
def quic_if_conds_expected : String := "err != nil | !validQUICMsg(msg) | !written | err != nil"
theorem quic_if_conds_src : quic_if_conds = quic_if_conds_expected := by decide

/-- … the server answers SERVFAIL itself. -/
def quic_noresp_expected : String := "msg, dns.RcodeServerFailure"
theorem quic_noresp_src : quic_noresp = quic_noresp_expected := by decide

/-- DNSCrypt: the handler's response if one was written … -/
def dnscrypt_if_conds_expected : String := "written | opt != nil && network == NetworkUDP"
theorem dnscrypt_if_conds_src : dnscrypt_if_conds = dnscrypt_if_conds_expected := by decide

/-- … SERVFAIL otherwise. -/
def dnscrypt_noresp_expected : String := "r, dns.RcodeServerFailure"
theorem dnscrypt_noresp_src : dnscrypt_noresp = dnscrypt_noresp_expected := by decide

/-- DoH: when nothing was written … -/
def doh_if_conds_expected : String := "err != nil | !written | err != nil"
theorem doh_if_conds_src : doh_if_conds = doh_if_conds_expected := by decide

/-- … HTTP 500 without a DNS message. -/
def doh_noresp_expected : String := "w, \"No response\", http.StatusInternalServerError"
theorem doh_noresp_src : doh_noresp = doh_noresp_expected := by decide

/-- TCP/DoT: when nothing was written the connection is closed. -/
def tcp_if_conds_expected : String := "!written"
theorem tcp_if_conds_src : tcp_if_conds = tcp_if_conds_expected := by decide

/-- The buffering writer of DoH/DoQ/DNSCrypt keeps the last message only. -/
def nonwriter_write_expected : String := "{ r.req = req r.res = resp return nil }"
theorem nonwriter_write_src : nonwriter_write = nonwriter_write_expected := by decide

/-! Fourth deepening: `lowerRule` and the builder of the global settings. -/

/-- `lowerRule`: a pattern that does not start with `/`, or whose only `/` is the first one, is no regular expression. -/
def lower_rule_if_conds_expected : String := "!strings.HasPrefix(pattern, \"/\") | end == start"
theorem lower_rule_if_conds_src : lower_rule_if_conds = lower_rule_if_conds_expected := by decide

/-- … those are lower-cased as a whole; a regular expression is kept up to its last `/`, the options are lower-cased. -/
def lower_rule_returns_expected : String := "strings.ToLower(text) | strings.ToLower(text) | text[:end+1] + strings.ToLower(text[end+1:])"
theorem lower_rule_returns_src : lower_rule_returns = lower_rule_returns_expected := by decide

def lower_rule_text_expected : String := "strings.TrimSpace(text)"
theorem lower_rule_text_src : lower_rule_text = lower_rule_text_expected := by decide

def lower_rule_pattern_expected : String := "strings.TrimPrefix(text, \"@@\")"
theorem lower_rule_pattern_src : lower_rule_pattern = lower_rule_pattern_expected := by decide

def lower_rule_start_expected : String := "len(text) - len(pattern)"
theorem lower_rule_start_src : lower_rule_start = lower_rule_start_expected := by decide

def lower_rule_end_expected : String := "strings.LastIndexByte(text, '/')"
theorem lower_rule_end_src : lower_rule_end = lower_rule_end_expected := by decide

/-- `builder.initAccess` hands both lists of the configuration file to `access.NewGlobal`, the subnets unchanged. -/
def init_access_args_expected : String := "c.BlockedQuestionDomains, netutil.UnembedPrefixes(c.BlockedClientSubnets)"
theorem init_access_args_src : init_access_args = init_access_args_expected := by decide

/-- The start-up validation of the access section only demands that it exists. -/
def access_conf_validate_if_expected : String := "c == nil"
theorem access_conf_validate_if_src : access_conf_validate_if = access_conf_validate_if_expected := by decide

end Agd.Tie.C10
