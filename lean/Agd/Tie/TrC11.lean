import Agd.Gen.TrC11
/-!
# C11: what happens to a hash-prefix (TXT) query, and which questions are filtered — on translated source

`Agd.Gen.TrC11.*` are regenerated on every run (`extract/tr.go`) from
`internal/dnssvc/internal/preservice/preservice.go` (the handler closure of `Middleware.Wrap`,
`respondWithHashes`) and `internal/filter/hashprefix/filter.go` (`isFilterable`, `respForFamily`).
The matcher, the message constructor, the response writer and the next handler are opaque calls.
-/
namespace Agd.Tie.TrC11
open Agd.Gen.TrC11 Agd.TrPrelude

theorem translation_complete : translationFailures = [] := by decide

def names (tr : List (String × List String)) : List String := tr.map (·.1)
def callsOf (f : String) (tr : List (String × List String)) : List (List String) :=
  (tr.filter (·.1 = f)).map (·.2)

/-- A malformed prefix (the matcher reports an error) is REFUSED (rcode 5), written to the client, and
never forwarded to the next handler. -/
theorem malformed_prefix_refused (mw : S_preservice_Middleware) (ri : Option S_agd_RequestInfo)
    (hs : List String) (m : Bool) (e : String) (rc : AbsPtr) (w1 ann fwd : Option String)
    (txt : AbsPtr × Option String) (w2 : Option String) :
    let out := respondWithHashes mw ri (hs, m, some e) rc w1 ann fwd txt w2
    "ServeDNS" ∉ names out.2 ∧ callsOf "NewRespRCode" out.2 = [["_", toString (5 : Int)]] ∧
    (names out.2).count "WriteMsg" = 1 ∧ "NewRespTXT" ∉ names out.2 := by
  simp [respondWithHashes, names, callsOf]

/-- A well-formed query whose name is not under a safe-browsing suffix is passed on unchanged: nothing
is written here and the next handler's result is returned. -/
theorem unmatched_forwarded (mw : S_preservice_Middleware) (ri : Option S_agd_RequestInfo)
    (hs : List String) (rc : AbsPtr) (w1 ann fwd : Option String) (txt : AbsPtr × Option String) (w2 : Option String) :
    respondWithHashes mw ri (hs, false, none) rc w1 ann fwd txt w2 =
      (fwd, [("MatchByPrefix", ["_", "_"]), ("ServeDNS", ["_", "_", "_"])]) := by
  simp [respondWithHashes]

/-- A matched query is answered here with a TXT response built from the matcher's hashes, exactly one
write, and is not forwarded. -/
theorem matched_answered_with_hashes (mw : S_preservice_Middleware) (ri : Option S_agd_RequestInfo)
    (hs : List String) (rc : AbsPtr) (w1 ann fwd : Option String) (t : AbsPtr) (w2 : Option String) :
    let out := respondWithHashes mw ri (hs, true, none) rc w1 ann fwd (t, none) w2
    names out.2 = ["MatchByPrefix", "NewRespTXT", "WriteMsg"] ∧ (w2 = none → out.1 = none) := by
  cases w2 <;> simp [respondWithHashes, names]

/-- Only TXT questions (type 16) take the hash-prefix path; every other type goes to the DNS checker
and, if that does not answer, to the next handler. -/
theorem txt_only (mw : S_preservice_Middleware) (ri : S_agd_RequestInfo) (rh : Option String)
    (ck : AbsPtr × Option String) (fwd w : Option String) :
    (ri.QType = 16 → preservice_handler mw (some ri) rh ck fwd w =
      some (rh, [("MustRequestInfoFromContext", ["_"]), ("respondWithHashes", ["_", "_", "_", "_", "_"])])) ∧
    (ri.QType ≠ 16 → "respondWithHashes" ∉ names ((preservice_handler mw (some ri) rh ck fwd w).getD (none, [])).2 ∧
      (ck = (false, none) → preservice_handler mw (some ri) rh ck fwd w =
        some (fwd, [("MustRequestInfoFromContext", ["_"]), ("Check", ["_", "_", "_"]), ("ServeDNS", ["_", "_", "_"])]))) := by
  constructor
  · intro h; simp [preservice_handler, h]
  · intro h
    constructor
    · cases hc : ck.2 <;> cases hr : ck.1 <;> cases w <;> simp [preservice_handler, names, h, hc, hr]
    · intro hk; subst hk; simp [preservice_handler, h]

/-- Filterable questions: HTTPS (type 65), and the types the address-family function maps to a family
(A → 1, AAAA → 2; 0 for everything else): nothing else is looked up in the hash lists. -/
theorem filterable_iff (qt fam : Int) :
    (isFilterable qt fam).2 = true ↔ (qt = 65 ∨ fam ≠ 0) := by
  by_cases h : qt = 65 <;> by_cases hf : fam = 0 <;> simp [isFilterable, h, hf]

/-- A listed host is answered from the replacement address only when its family fits the question;
otherwise with an empty NOERROR answer carrying the "filtered" extended error — never with upstream
data. -/
theorem resp_for_family (f : S_hashprefix_Filter) (req : Option S_internal_Request) (fam : Int)
    (b : AbsPtr × Option String) (u : Unit) (is4 : Bool) (r4 : AbsPtr × Option String) (is6 : Bool)
    (r6 : AbsPtr × Option String) (rc : AbsPtr) :
    let out := respForFamily f req fam b u is4 r4 is6 r6 rc
    (fam = 0 → names out.2.2 = ["NewBlockedResp"]) ∧
    (fam ≠ 0 → ¬(is4 = true ∧ fam = 1) → ¬(is6 = true ∧ fam = 2) →
      callsOf "NewRespRCode" out.2.2 = [["_", toString (0 : Int)]] ∧ "NewBlockedRespIP" ∉ names out.2.2 ∧
      callsOf "AddEDE" out.2.2 = [["_", "_", toString (17 : Int)]]) := by
  by_cases h0 : fam = 0 <;> by_cases h1 : fam = 1 <;> by_cases h2 : fam = 2 <;> cases is4 <;> cases is6 <;>
    simp [respForFamily, names, callsOf, h0, h1, h2] <;> omega

end Agd.Tie.TrC11

#print axioms Agd.Tie.TrC11.translation_complete
#print axioms Agd.Tie.TrC11.malformed_prefix_refused
#print axioms Agd.Tie.TrC11.unmatched_forwarded
#print axioms Agd.Tie.TrC11.matched_answered_with_hashes
#print axioms Agd.Tie.TrC11.txt_only
#print axioms Agd.Tie.TrC11.filterable_iff
#print axioms Agd.Tie.TrC11.resp_for_family
