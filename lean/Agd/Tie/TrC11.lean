import Agd.Gen.TrC11
import Agd.Model.HashPrefix
/-!
# C11: what happens to a hash-prefix (TXT) query, and which questions are filtered — on translated source

`Agd.Gen.TrC11.*` are regenerated on every run (`extract/tr.go`) from
`internal/dnssvc/internal/preservice/preservice.go` (the handler closure of `Middleware.Wrap`,
`respondWithHashes`) and `internal/filter/hashprefix/filter.go` (`isFilterable`, `respForFamily`).
The matcher, the message constructor, the response writer and the next handler are opaque calls.
-/
namespace Agd.Tie.TrC11
open Agd.Gen.TrC11 Agd.TrPrelude

theorem translation_complete : translationFailures = [] := by decide

def names (tr : List (String × List String)) : List String := tr.map (·.1)
def callsOf (f : String) (tr : List (String × List String)) : List (List String) :=
  (tr.filter (·.1 = f)).map (·.2)

/-- A malformed prefix (the matcher reports an error) is REFUSED (rcode 5), written to the client, and
never forwarded to the next handler. -/
theorem malformed_prefix_refused (mw : S_preservice_Middleware) (ri : Option S_agd_RequestInfo)
    (hs : List String) (m : Bool) (e : String) (rc : AbsPtr) (w1 ann fwd : Option String)
    (txt : AbsPtr × Option String) (w2 : Option String) :
    let out := respondWithHashes mw ri (hs, m, some e) rc w1 ann fwd txt w2
    "ServeDNS" ∉ names out.2 ∧ callsOf "NewRespRCode" out.2 = [["_", toString (5 : Int)]] ∧
    (names out.2).count "WriteMsg" = 1 ∧ "NewRespTXT" ∉ names out.2 := by
  simp [respondWithHashes, names, callsOf]

/-- A well-formed query whose name is not under a safe-browsing suffix is passed on unchanged: nothing
is written here and the next handler's result is returned. -/
theorem unmatched_forwarded (mw : S_preservice_Middleware) (ri : Option S_agd_RequestInfo)
    (hs : List String) (rc : AbsPtr) (w1 ann fwd : Option String) (txt : AbsPtr × Option String) (w2 : Option String) :
    respondWithHashes mw ri (hs, false, none) rc w1 ann fwd txt w2 =
      (fwd, [("MatchByPrefix", ["_", "_"]), ("ServeDNS", ["_", "_", "_"])]) := by
  simp [respondWithHashes]

/-- A matched query is answered here with a TXT response built from the matcher's hashes, exactly one
write, and is not forwarded. -/
theorem matched_answered_with_hashes (mw : S_preservice_Middleware) (ri : Option S_agd_RequestInfo)
    (hs : List String) (rc : AbsPtr) (w1 ann fwd : Option String) (t : AbsPtr) (w2 : Option String) :
    let out := respondWithHashes mw ri (hs, true, none) rc w1 ann fwd (t, none) w2
    names out.2 = ["MatchByPrefix", "NewRespTXT", "WriteMsg"] ∧ (w2 = none → out.1 = none) := by
  cases w2 <;> simp [respondWithHashes, names]

/-- Only TXT questions (type 16) take the hash-prefix path; every other type goes to the DNS checker
and, if that does not answer, to the next handler. -/
theorem txt_only (mw : S_preservice_Middleware) (ri : S_agd_RequestInfo) (rh : Option String)
    (ck : AbsPtr × Option String) (fwd w : Option String) :
    (ri.QType = 16 → preservice_handler mw (some ri) rh ck fwd w =
      some (rh, [("MustRequestInfoFromContext", ["_"]), ("respondWithHashes", ["_", "_", "_", "_", "_"])])) ∧
    (ri.QType ≠ 16 → "respondWithHashes" ∉ names ((preservice_handler mw (some ri) rh ck fwd w).getD (none, [])).2 ∧
      (ck = (false, none) → preservice_handler mw (some ri) rh ck fwd w =
        some (fwd, [("MustRequestInfoFromContext", ["_"]), ("Check", ["_", "_", "_"]), ("ServeDNS", ["_", "_", "_"])]))) := by
  constructor
  · intro h; simp [preservice_handler, h]
  · intro h
    constructor
    · cases hc : ck.2 <;> cases hr : ck.1 <;> cases w <;> simp [preservice_handler, names, h, hc, hr]
    · intro hk; subst hk; simp [preservice_handler, h]

/-- Filterable questions: HTTPS (type 65), and the types the address-family function maps to a family
(A → 1, AAAA → 2; 0 for everything else): nothing else is looked up in the hash lists. -/
theorem filterable_iff (qt fam : Int) :
    (isFilterable qt fam).2 = true ↔ (qt = 65 ∨ fam ≠ 0) := by
  by_cases h : qt = 65 <;> by_cases hf : fam = 0 <;> simp [isFilterable, h, hf]

/-- A listed host is answered from the replacement address only when its family fits the question;
otherwise with an empty NOERROR answer carrying the "filtered" extended error — never with upstream
data. -/
theorem resp_for_family (f : S_hashprefix_Filter) (req : Option S_internal_Request) (fam : Int)
    (b : AbsPtr × Option String) (u : Unit) (is4 : Bool) (r4 : AbsPtr × Option String) (is6 : Bool)
    (r6 : AbsPtr × Option String) (rc : AbsPtr) :
    let out := respForFamily f req fam b u is4 r4 is6 r6 rc
    (fam = 0 → names out.2.2 = ["NewBlockedResp"]) ∧
    (fam ≠ 0 → ¬(is4 = true ∧ fam = 1) → ¬(is6 = true ∧ fam = 2) →
      callsOf "NewRespRCode" out.2.2 = [["_", toString (0 : Int)]] ∧ "NewBlockedRespIP" ∉ names out.2.2 ∧
      callsOf "AddEDE" out.2.2 = [["_", "_", toString (17 : Int)]]) := by
  by_cases h0 : fam = 0 <;> by_cases h1 : fam = 1 <;> by_cases h2 : fam = 2 <;> cases is4 <;> cases is6 <;>
    simp [respForFamily, names, callsOf, h0, h1, h2] <;> omega

/-! ## `Storage.MatchesAny` and `Filter.FilterRequest` (translator round 3; the code after the `fix:` commit
that matches all subdomains against one version of the hashes) -/

private theorem matchesAny_aux (f : String → Bool) : ∀ (hosts : List String) (i : Int) (tr0 : List (String × List String)),
    (match goRangeFrom (σ := List (String × List String)) (ρ := String × List (String × List String)) i hosts tr0
        (fun st _ host => if f host = true then Step.ret (host, st ++ [("matches", ["_", host])])
          else Step.next (st ++ [("matches", ["_", host])])) with
      | .inr r => r
      | .inl st => ("", st)).1 = (hosts.find? f).getD ""
  | [], _, _ => rfl
  | h :: hs, i, tr0 => by
    unfold goRangeFrom
    by_cases hf : f h = true
    · simp [hf]
    · simp only [hf, List.find?, Bool.false_eq_true, ↓reduceIte]
      have := matchesAny_aux f hs (i + 1) (tr0 ++ [("matches", ["_", h])])
      simpa [hf] using this

/-- `MatchesAny` returns the **first** candidate (in the order given) that the one loaded version of the
hash map matches, `""` when there is none — for every list of candidates and every map (`f` is `matches`
on the map loaded once before the loop: the translation has a single read `*s.hashSuffixes.Load()`, outside
the loop). -/
theorem matchesAny_first (s : S_hashprefix_Storage) (hosts : List String) (loaded : AbsPtr) (f : String → Bool) :
    (storage_MatchesAny s hosts loaded f).1 = (hosts.find? f).getD "" := by
  unfold storage_MatchesAny goRange
  exact matchesAny_aux f hosts 0 []

/-- Consequently: a non-empty result is one of the candidates and is matched; an empty result (when `""`
is not a candidate) means no candidate is matched. -/
theorem matchesAny_sound_complete (s : S_hashprefix_Storage) (hosts : List String) (loaded : AbsPtr) (f : String → Bool)
    (hne : "" ∉ hosts) :
    let m := (storage_MatchesAny s hosts loaded f).1
    (m ≠ "" → m ∈ hosts ∧ f m = true) ∧ (m = "" → ∀ h ∈ hosts, f h = false) := by
  intro m
  have hm : m = (hosts.find? f).getD "" := matchesAny_first s hosts loaded f
  cases hfind : hosts.find? f with
  | none =>
    rw [hfind] at hm
    refine ⟨fun h => absurd hm h, fun _ h hh => ?_⟩
    have := List.find?_eq_none.mp hfind h hh
    simpa using this
  | some x =>
    rw [hfind] at hm
    have hx : x ∈ hosts := List.mem_of_find?_eq_some hfind
    have hfx : f x = true := List.find?_some hfind
    simp only [Option.getD_some] at hm
    refine ⟨fun _ => by rw [hm]; exact ⟨hx, hfx⟩, fun h0 => ?_⟩
    rw [hm] at h0
    exact absurd (h0 ▸ hx) hne

example : (storage_MatchesAny ⟨⟩ ["a.b.test", "b.test", "test"] true (fun h => h == "b.test" || h == "test")).1 = "b.test" := by decide

def cnt (n : String) (tr : List (String × List String)) : Nat := (names tr).count n

/-- `FilterRequest` asks the hash storage **once** per request, and only on a cache miss of a filterable
question: the generation of the result cache is read before that single `MatchesAny`, the outcome (match
or not) is stored under that generation afterwards, nothing is stored when building the result failed,
and a cache hit or an unfilterable question type asks nothing.  Never panics for a non-nil request (a
cache hit comes with an item). -/
theorem filterRequest_single_lookup (f : S_hashprefix_Filter) (rq : S_internal_Request) (key : Int)
    (it : Option S_hashprefix_cacheItem) (ok : Bool) (fam : Int) (isFlt : Bool) (fr1 : AbsPtr × Option String) (gen : Int)
    (m : String) (fr2 : AbsPtr × Option String) (hit : ok = true → it ≠ none) :
    hp_FilterRequest f (some rq) key (it, ok) (fam, isFlt) fr1 gen m fr2 ≠ none ∧
    ∀ r e tr, hp_FilterRequest f (some rq) key (it, ok) (fam, isFlt) fr1 gen m fr2 = some (r, e, tr) →
      cnt "MatchesAny" tr = (if isFlt && !ok then 1 else 0) ∧
      (isFlt = true → ok = false →
        tr.map (·.1) = "NewCacheKey" :: "itemFromCache" :: "isFilterable" :: "Load" :: "MatchesAny" ::
          (if m = "" then ["setInCache"] else if fr2.2.isSome then ["filteredResult"] else ["filteredResult", "setInCache"]) ∧
        (m = "" → ("setInCache", [toString gen, toString key, "", rq.Host]) ∈ tr ∧ r = false ∧ e = none) ∧
        (m ≠ "" → fr2.2 = none → ("setInCache", [toString gen, toString key, m, rq.Host]) ∈ tr ∧ r = fr2.1 ∧ e = none) ∧
        (m ≠ "" → fr2.2 ≠ none → cnt "setInCache" tr = 0 ∧ e = fr2.2)) := by
  obtain ⟨fr2r, fr2e⟩ := fr2
  have hit' : ok = true → ∃ item, it = some item := fun h => Option.ne_none_iff_exists'.mp (hit h)
  cases isFlt <;> cases ok
  · refine ⟨by simp [hp_FilterRequest], fun r e tr h => ?_⟩
    simp [hp_FilterRequest] at h
    obtain ⟨rfl, rfl, rfl⟩ := h
    simp [cnt, names]
  · refine ⟨by simp [hp_FilterRequest], fun r e tr h => ?_⟩
    simp [hp_FilterRequest] at h
    obtain ⟨rfl, rfl, rfl⟩ := h
    simp [cnt, names]
  · by_cases hm : m = ""
    · subst hm
      refine ⟨by simp [hp_FilterRequest], fun r e tr h => ?_⟩
      simp [hp_FilterRequest] at h
      obtain ⟨rfl, rfl, rfl⟩ := h
      simp [cnt, names]
    · cases fr2e with
      | none =>
        refine ⟨by simp [hp_FilterRequest, hm], fun r e tr h => ?_⟩
        simp [hp_FilterRequest, hm] at h
        obtain ⟨rfl, rfl, rfl⟩ := h
        simp [cnt, names, hm]
      | some ee =>
        refine ⟨by simp [hp_FilterRequest, hm], fun r e tr h => ?_⟩
        simp [hp_FilterRequest, hm] at h
        obtain ⟨rfl, rfl, rfl⟩ := h
        simp [cnt, names, hm]
  · obtain ⟨item, rfl⟩ := hit' rfl
    by_cases hmm : item.matched = ""
    · refine ⟨by simp [hp_FilterRequest, hmm], fun r e tr h => ?_⟩
      simp [hp_FilterRequest, hmm] at h
      obtain ⟨rfl, rfl, rfl⟩ := h
      simp [cnt, names]
    · refine ⟨by simp [hp_FilterRequest, hmm], fun r e tr h => ?_⟩
      simp [hp_FilterRequest, hmm] at h
      obtain ⟨rfl, rfl, rfl⟩ := h
      simp [cnt, names]

/-! ## Round 6: the hand model's `isFilterable` equals the translated one -/

/-- golibs `netutil.AddrFamilyFromRRType` as documented and as in v0.30.4 (`addrfam.go`): A ↦
`AddrFamilyIPv4` (1), AAAA ↦ `AddrFamilyIPv6` (2), everything else ↦ `AddrFamilyNone` (0).  This is
the library behaviour `isFilterable_tr` assumes (trusted base; not translated). -/
def famOf (qt : Nat) : Int := if qt = 1 then 1 else if qt = 28 then 2 else 0

/-- **The hand model's `isFilterable` is the translated one**, for every question type, given the
library's address-family table: the hash-prefix filters look at A, AAAA and HTTPS questions and at
nothing else; the family handed to `respForFamily` is the library's (none for HTTPS). -/
theorem isFilterable_tr (qt : Nat) :
    (isFilterable (qt : Int) (famOf qt)).2 = Agd.HashPrefix.isFilterable qt ∧
    (isFilterable (qt : Int) (famOf qt)).1 = (if qt = 65 then 0 else famOf qt) := by
  by_cases h1 : qt = 65
  · subst h1; simp [isFilterable, Agd.HashPrefix.isFilterable]
  · by_cases h2 : qt = 1
    · subst h2; simp [isFilterable, Agd.HashPrefix.isFilterable, famOf]
    · by_cases h3 : qt = 28
      · subst h3; simp [isFilterable, Agd.HashPrefix.isFilterable, famOf]
      · have : ¬ ((qt : Int) = 65) := by omega
        simp [isFilterable, Agd.HashPrefix.isFilterable, famOf, h1, h2, h3, this]

end Agd.Tie.TrC11

#print axioms Agd.Tie.TrC11.translation_complete
#print axioms Agd.Tie.TrC11.malformed_prefix_refused
#print axioms Agd.Tie.TrC11.unmatched_forwarded
#print axioms Agd.Tie.TrC11.matched_answered_with_hashes
#print axioms Agd.Tie.TrC11.txt_only
#print axioms Agd.Tie.TrC11.filterable_iff
#print axioms Agd.Tie.TrC11.resp_for_family
#print axioms Agd.Tie.TrC11.isFilterable_tr
