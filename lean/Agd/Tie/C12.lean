import Agd.Gen.C12
/-! Tie theorems for C12: the source facts the model was written against still hold in /repo. -/
namespace Agd.Tie.C12
open Agd.Gen.C12

/-- The rule-list cache key is (host, type, IN, isAns); nothing of the requester. -/
theorem rl_cache_key_src : rl_cache_key_args = "host, rrType, dns.ClassINET, isAns" := by decide
/-- `itemFromCache`: miss, or host mismatch = collision = miss. -/
theorem rl_item_conds_src : rl_item_conds = "!ok | item.host != host" := by decide
/-- The cached item is the engine result plus the host. -/
theorem rl_set_src : rl_set_args = "cacheKey, &CacheItem{ res: res, host: host, }" := by decide
/-- `Refreshable.DNSResult` holds the read lock around the whole lookup (get … set). -/
theorem rl_lookup_calls_src : rl_lookup_calls = "f.mu.RLock,f.mu.RUnlock,f.filter.DNSResult" := by decide
/-- `Refreshable.Refresh`: write lock, then `Clear`, then the engine swap. -/
theorem rl_refresh_calls_src :
    rl_refresh_calls = "f.mu.Lock,f.mu.Unlock,f.cache.Clear,urlfilter.NewDNSEngine" := by decide
/-- `addRuleList` gives every refreshed list a new cache object. -/
theorem add_rule_list_fresh_cache_src : add_rule_list_fresh_cache = "1" := by decide
/-- Custom filters are compiled without a result cache (`ResultCacheEmpty`). -/
theorem custom_cache_is_empty_src :
    custom_cache_is_empty = "b.String(), internal.IDCustom, \"\", rulelist.ResultCacheEmpty{}" := by decide
/-- The hash-prefix cache item is the matched host and the host, not a result. -/
theorem hp_item_fields_src : hp_item_fields = "matched,host" := by decide
/-- A hit rebuilds the result for the current request. -/
theorem hp_hit_rebuild_src : hp_hit_rebuild_args = "req, item.matched, fam" := by decide
/-- Lookup, generation load, matching, guarded insertion — in this order. -/
theorem hp_request_calls_src :
    hp_request_calls = "f.itemFromCache,f.resCacheGen.Load,f.hashes.MatchesAny,f.setInCache,f.setInCache" := by decide
/-- `setInCache` skips the insertion when the generation has changed … -/
theorem hp_set_conds_src : hp_set_conds = "f.resCacheGen.Load() != gen" := by decide
/-- … and compares and inserts under the read lock. -/
theorem hp_set_calls_src :
    hp_set_calls = "f.resCacheMu.RLock,f.resCacheMu.RUnlock,f.resCacheGen.Load,f.resCache.Set" := by decide
/-- `clearCache` bumps the generation and clears under the write lock. -/
theorem hp_clear_calls_src :
    hp_clear_calls = "f.resCacheMu.Lock,f.resCacheMu.Unlock,f.resCacheGen.Add,f.resCache.Clear" := by decide
/-- `refresh`: `Reset` first, then `clearCache` (no bare `Clear`). -/
theorem hp_refresh_calls_src : hp_refresh_calls = "f.hashes.Reset,f.clearCache" := by decide
theorem hp_filterable_src :
    hp_filterable_returns = "netutil.AddrFamilyNone, true | fam, fam != netutil.AddrFamilyNone" := by decide
/-- `custom.get`: reuse unless the cached time is strictly before the configuration's. -/
theorem custom_get_conds_src : custom_get_conds = "!ok | !item.updTime.Equal(c.UpdateTime)" := by decide
theorem custom_get_disabled_src : custom_get_disabled_cond = "!c.Enabled || len(c.Rules) == 0" := by decide
theorem custom_set_src : custom_set_args = "c.ID, &cacheItem{ updTime: c.UpdateTime, ruleList: rl, }" := by decide
/-- `CloneForReq` (model `Old.cloneForReq`) resets the reply header with `SetReply`. -/
theorem clone_for_req_src : clone_for_req_calls = "msg.SetReply" := by decide

/-- `NewCacheKey` (model `keyBytes`): the whole host, then the 16-bit type at bytes 0–1, the 16-bit
class at bytes 2–3, the answer flag at byte 4, and all five bytes are hashed. -/
theorem key_host_src : key_host_args = "host" := by decide
theorem key_qt_src : key_qt_args = "buf[:2], qt" := by decide
theorem key_cl_src : key_cl_args = "buf[2:4], cl" := by decide
theorem key_ans_src : key_ans_rhs = "mathutil.BoolToNumber[byte](isAns)" := by decide
theorem key_write_src : key_write_args = "buf[:]" := by decide
theorem key_calls_src :
    key_calls = "h.SetSeed,h.WriteString,binary.LittleEndian.PutUint16,binary.LittleEndian.PutUint16,h.Write,h.Sum64" := by
  decide
/-- Safe search (model `RL.ssStep`): gate on A/AAAA/HTTPS, the rule-list lookup gets nothing of the
requester but the address, and the result is built from the request afterwards. -/
theorem ss_gate_src : ss_gate_cases = "dns.TypeA,dns.TypeAAAA,dns.TypeHTTPS | default" := by decide
theorem ss_result_src : ss_result_args = "req.RemoteIP, \"\", host, qt, false" := by decide
theorem ss_rewrite_src : ss_rewrite_args = "req, dr.DNSRewrites(), id" := by decide
/-- `LRU.Clear` purges the whole cache. -/
theorem lru_clear_src : lru_clear_calls = "c.cache.Purge" := by decide
/-- The hash-prefix key is built from the request's host, type and class. -/
theorem hp_key_src : hp_key_args = "host, qt, cl, false" := by decide
/-- `filter.DNSResult`: cache lookup, engine, insertion (model `RLS.step` get · mtch · set). -/
theorem rl_filter_calls_src : rl_filter_calls = "itemFromCache,f.engine.MatchRequest,f.cache.Set" := by decide
/-- `FilterRequest` never writes the result cache except through the guarded `setInCache`. -/
theorem hp_request_sets_src : hp_request_sets = "0" := by decide
/-- The key is the whole 64-bit sum (no mask, no shift). -/
theorem key_return_src : key_return = "CacheKey(h.Sum64())" := by decide
/-- The hash-prefix `itemFromCache`: miss, or host mismatch = collision = miss. -/
theorem hp_item_conds_src : hp_item_conds = "!ok | item.host != host" := by decide
/-- The custom-filter cache is read under the profile's exact ID. -/
theorem custom_get_args_src : custom_get_args = "c.ID" := by decide

/-- `Profiles` stamps every delivered profile with the local time of its conversion (model `stampNow`;
`Sync.step` `.sync`), not with anything taken from the request. -/
theorem profiles_stamp_src :
    profiles_stamp_args = "ctx, time.Now(), s.bindSet, s.errColl, s.logger, s.metrics, s.respSzEst" := by decide
def profileCustomConf : String :=
  "&filter.ConfigCustom{ ID: string(x.DnsId), UpdateTime: updTime, Rules: customRules, Enabled: len(customRules) > 0, }"
/-- `toInternal`: the custom configuration is keyed by the profile's own ID, carries the stamp it was
given, and is enabled exactly when there are rules (model `confOf`). -/
theorem profile_custom_conf_src : profile_custom_conf = profileCustomConf := by decide

end Agd.Tie.C12
