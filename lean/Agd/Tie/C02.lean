import Agd.Gen.C02
/-! Tie theorems for C02: the source facts the model was written against still hold in the repository. -/
namespace Agd.Tie.C02
open Agd.Gen.C02

/-- `composite.New` appends the request filters in the documented order: dangerous domains, adult, general safe search, YouTube safe search, newly registered (`Agd.Filter.reqFilterVerdicts`). -/
def req_filter_0_sb_expected : String := "f.reqFilters, c.SafeBrowsing"
theorem req_filter_0_sb_src : req_filter_0_sb = req_filter_0_sb_expected := rfl
def req_filter_1_adult_expected : String := "f.reqFilters, c.AdultBlocking"
theorem req_filter_1_adult_src : req_filter_1_adult = req_filter_1_adult_expected := rfl
def req_filter_2_gss_expected : String := "f.reqFilters, c.GeneralSafeSearch"
theorem req_filter_2_gss_src : req_filter_2_gss = req_filter_2_gss_expected := rfl
def req_filter_3_yss_expected : String := "f.reqFilters, c.YouTubeSafeSearch"
theorem req_filter_3_yss_src : req_filter_3_yss = req_filter_3_yss_expected := rfl
def req_filter_4_nrd_expected : String := "f.reqFilters, c.NewRegisteredDomains"
theorem req_filter_4_nrd_src : req_filter_4_nrd = req_filter_4_nrd_expected := rfl
/-- `FilterRequest` returns early for a custom allow and for any block/rewrite (`Agd.Filter.filterRequest`). -/
def filter_request_cases_expected : String := "*internal.ResultAllowed | *internal.ResultBlocked,*internal.ResultModifiedRequest,*internal.ResultModifiedResponse | default"
theorem filter_request_cases_src : filter_request_cases = filter_request_cases_expected := rfl
def custom_allow_cond_expected : String := "flRes.List == internal.IDCustom"
theorem custom_allow_cond_src : custom_allow_cond = custom_allow_cond_expected := rfl
/-- `filterReqWithRuleLists`: custom first (rewrites processed before adding), then each shared list, then services without rewrite processing. -/
def req_rule_list_calls_expected : String := "f.custom.DNSResult,ProcessDNSRewrites,ufRes.Add,rl.DNSResult,ProcessDNSRewrites,ufRes.Add,ufRes.Add,rl.DNSResult,ufRes.ToInternal"
theorem req_rule_list_calls_src : req_rule_list_calls = req_rule_list_calls_expected := rfl
/-- `filterRespWithRuleLists`: shared lists, custom, services; no rewrite processing. -/
def resp_rule_list_calls_expected : String := "ufRes.Add,rl.DNSResult,ufRes.Add,f.custom.DNSResult,ufRes.Add,rl.DNSResult,ufRes.ToInternal"
theorem resp_rule_list_calls_src : resp_rule_list_calls = resp_rule_list_calls_expected := rfl
/-- `ToInternal`: the basic network rule decides before hosts rules. -/
def to_internal_basic_expected : String := "ruleDataToResult(m, nr.FilterListID, nr.RuleText, nr.Whitelist)"
theorem to_internal_basic_src : to_internal_basic = to_internal_basic_expected := rfl
def hosts_conds_expected : String := "len(r.hostRules4) == 0 && len(r.hostRules6) == 0 | rrType == dns.TypeA && len(r.hostRules4) > 0 | rrType == dns.TypeAAAA && len(r.hostRules6) > 0 | len(r.hostRules4) > 0"
theorem hosts_conds_src : hosts_conds = hosts_conds_expected := rfl
def rewrite_conds_expected : String := "len(dnsr) == 0 | resCanonName != \"\" | strings.EqualFold(resCanonName, req.Host) | dnsRewriteResult.RCode != dns.RcodeSuccess | err != nil"
theorem rewrite_conds_src : rewrite_conds = rewrite_conds_expected := rfl
/-- `Middleware.filter` (`Agd.Filter.selectFilter`). -/
def mw_filter_conds_expected : String := "p == nil | p.FilteringEnabled && d.FilteringEnabled"
theorem mw_filter_conds_src : mw_filter_conds = mw_filter_conds_expected := rfl
def mw_filter_returns_expected : String := "mw.fltStrg.ForConfig(ctx, ri.FilteringGroup.FilterConfig) | mw.fltStrg.ForConfig(ctx, p.FilterConfig) | mw.fltStrg.ForConfig(ctx, nil)"
theorem mw_filter_returns_src : mw_filter_returns = mw_filter_returns_expected := rfl
/-- `setFilteredResponse(NoReq)` (`Agd.Filter.serve`), including the fail-closed fallback. -/
def set_filtered_cases_expected : String := "nil | *filter.ResultBlocked | *filter.ResultAllowed,*filter.ResultModifiedRequest | *filter.ResultModifiedResponse | default"
theorem set_filtered_cases_src : set_filtered_cases = set_filtered_cases_expected := rfl
def set_filtered_on_error_expected : String := "mw.blockedRespFallback(fctx, ri)"
theorem set_filtered_on_error_src : set_filtered_on_error = set_filtered_on_error_expected := rfl
def set_filtered_noreq_cases_expected : String := "nil,*filter.ResultAllowed | *filter.ResultBlocked | default"
theorem set_filtered_noreq_cases_src : set_filtered_noreq_cases = set_filtered_noreq_cases_expected := rfl
def set_filtered_noreq_on_error_expected : String := "mw.blockedRespFallback(fctx, ri)"
theorem set_filtered_noreq_on_error_src : set_filtered_noreq_on_error = set_filtered_noreq_on_error_expected := rfl
def blocked_fallback_expected : String := "ri.Messages.NewBlockedRespRCode(fctx.originalRequest, dns.RcodeServerFailure)"
theorem blocked_fallback_src : blocked_fallback = blocked_fallback_expected := rfl
/-- `NewBlockedResp` (`Agd.Filter.blockedResp`). -/
def blocked_resp_cases_expected : String := "*BlockingModeCustomIP | *BlockingModeNullIP | dns.TypeA,dns.TypeAAAA | default | *BlockingModeNXDOMAIN | *BlockingModeREFUSED | default"
theorem blocked_resp_cases_src : blocked_resp_cases = blocked_resp_cases_expected := rfl
/-- `forClient` / `forGroup` (`Agd.Filter.assemble`): parental, rule lists, safe browsing; a custom filter only for a client. -/
def for_client_calls_expected : String := "s.setParental,s.setRuleLists,s.setSafeBrowsing,s.custom.Get,composite.New"
theorem for_client_calls_src : for_client_calls = for_client_calls_expected := rfl
def for_group_calls_expected : String := "s.setParental,s.setRuleLists,s.setSafeBrowsing,composite.New"
theorem for_group_calls_src : for_group_calls = for_group_calls_expected := rfl
/-- The master switches and the pause schedule gate every individual switch. -/
def set_parental_conds_expected : String := "!c.Enabled | pause != nil && pause.Contains(s.clock.Now()) | c.AdultBlockingEnabled | c.SafeSearchGeneralEnabled | c.SafeSearchYouTubeEnabled | len(c.BlockedServices) > 0 && s.services != nil"
theorem set_parental_conds_src : set_parental_conds = set_parental_conds_expected := rfl
def set_rule_lists_conds_expected : String := "!c.Enabled || len(c.IDs) == 0 | rl != nil"
theorem set_rule_lists_conds_src : set_rule_lists_conds = set_rule_lists_conds_expected := rfl
def set_safe_browsing_conds_expected : String := "!c.Enabled | c.DangerousDomainsEnabled | c.NewlyRegisteredDomainsEnabled"
theorem set_safe_browsing_conds_src : set_safe_browsing_conds = set_safe_browsing_conds_expected := rfl
def custom_get_cond_expected : String := "!c.Enabled || len(c.Rules) == 0"
theorem custom_get_cond_src : custom_get_cond = custom_get_cond_expected := rfl
def service_lists_conds_expected : String := "len(ids) == 0 | rl == nil"
theorem service_lists_conds_src : service_lists_conds = service_lists_conds_expected := rfl
/-- `FilterResponse` stops at the first answer with a verdict (`Agd.Filter.filterResponse`). -/
def filter_response_conds_expected : String := "r != nil"
theorem filter_response_conds_src : filter_response_conds = filter_response_conds_expected := rfl
/-- `newBlockedCustomIPResp` (`Agd.Filter.blockedResp`, custom-IP branch). -/
def custom_ip_conds_expected : String := "len(m.IPv4) > 0 | len(m.IPv6) > 0"
theorem custom_ip_conds_src : custom_ip_conds = custom_ip_conds_expected := rfl
def custom_ip_cases_expected : String := "dns.TypeA | dns.TypeAAAA | default"
theorem custom_ip_cases_src : custom_ip_cases = custom_ip_cases_expected := rfl
/-- `newRequestInfo`: a profile's own constructor replaces the server's unless it cannot be made (`Agd.Filter.ctorOf`). -/
def requester_ctor_cond_expected : String := "ok | err != nil"
theorem requester_ctor_cond_src : requester_ctor_cond = requester_ctor_cond_expected := rfl
/-- The filters synthesise answers with the requester's constructor and see the normalised host. -/
def flt_req_messages_expected : String := "ri.Messages"
theorem flt_req_messages_src : flt_req_messages = flt_req_messages_expected := rfl
def flt_req_host_expected : String := "ri.Host"
theorem flt_req_host_src : flt_req_host = flt_req_host_expected := rfl
/-- `respForFamily`: HTTPS gets the requester's blocked response (`Agd.Filter.hashRespMsg`). -/
def hash_https_blocked_expected : String := "req.Messages.NewBlockedResp(req.DNS)"
theorem hash_https_blocked_src : hash_https_blocked = hash_https_blocked_expected := rfl
def hash_resp_conds_expected : String := "fam == netutil.AddrFamilyNone"
theorem hash_resp_conds_src : hash_resp_conds = hash_resp_conds_expected := rfl

/-- `ConfigSchedule.Contains` (`Agd.Filter.Sched.contains`): the instant is converted to the profile's zone first, the weekday of THAT reading selects the interval, nil and the zero interval never match, midnight comes from `time.Date` in the zone, the minutes are added as elapsed time, start inclusive and end exclusive. -/
def sched_contains_zone_expected : String := "t.In(&s.TimeZone.Location)"
theorem sched_contains_zone_src : sched_contains_zone = sched_contains_zone_expected := rfl
def sched_contains_day_expected : String := "s.Week[int(t.Weekday())]"
theorem sched_contains_day_src : sched_contains_day = sched_contains_day_expected := rfl
def sched_contains_conds_expected : String := "r == nil || *r == (DayInterval{})"
theorem sched_contains_conds_src : sched_contains_conds = sched_contains_conds_expected := rfl
def sched_contains_midnight_expected : String := "time.Date(t.Year(), t.Month(), t.Day(), 0, 0, 0, 0, &s.TimeZone.Location)"
theorem sched_contains_midnight_src : sched_contains_midnight = sched_contains_midnight_expected := rfl
def sched_contains_start_expected : String := "day.Add(time.Duration(r.Start) * time.Minute)"
theorem sched_contains_start_src : sched_contains_start = sched_contains_start_expected := rfl
def sched_contains_end_expected : String := "day.Add(time.Duration(r.End) * time.Minute)"
theorem sched_contains_end_src : sched_contains_end = sched_contains_end_expected := rfl
def sched_contains_return_expected : String := "!t.Before(start) && t.Before(end)"
theorem sched_contains_return_src : sched_contains_return = sched_contains_return_expected := rfl
/-- HTTPS answers: both hint kinds are filtered, each hint under the record type HTTPS, first verdict wins; other records by `parseRespAnswer` (`Agd.Filter.answerVerdict`). -/
def https_answer_cases_expected : String := "dns.SVCB_IPV4HINT,dns.SVCB_IPV6HINT | default"
theorem https_answer_cases_src : https_answer_cases = https_answer_cases_expected := rfl
def https_hint_args_expected : String := "resp, s, dns.TypeHTTPS"
theorem https_hint_args_src : https_hint_args = https_hint_args_expected := rfl
def https_hint_conds_expected : String := "r != nil"
theorem https_hint_conds_src : https_hint_conds = https_hint_conds_expected := rfl
def resp_answer_cases_expected : String := "*dns.A | *dns.AAAA | *dns.CNAME | default"
theorem resp_answer_cases_src : resp_answer_cases = resp_answer_cases_expected := rfl
/-- `filterDNSRewriteResponse`: the record types a `$dnsrewrite` value can be synthesised for; only the values of the queried type are used (`Agd.Filter.rewriteVals`, `synthesizable`). -/
def rewrite_rr_cases_expected : String := "dns.TypeA,dns.TypeAAAA | dns.TypePTR,dns.TypeTXT | dns.TypeMX | dns.TypeHTTPS,dns.TypeSVCB | dns.TypeSRV | default"
theorem rewrite_rr_cases_src : rewrite_rr_cases = rewrite_rr_cases_expected := rfl
def rewrite_values_of_qtype_expected : String := "dnsrr.Response[rr]"
theorem rewrite_values_of_qtype_src : rewrite_values_of_qtype = rewrite_values_of_qtype_expected := rfl
/-- `NewConstructor` fails for a nil blocking mode and for a negative TTL (`Agd.Filter.ctorOf`). -/
def ctor_validate_conds_expected : String := "conf.Cloner == nil | err != nil | conf.BlockingMode == nil | conf.FilteredResponseTTL < 0"
theorem ctor_validate_conds_src : ctor_validate_conds = ctor_validate_conds_expected := rfl
/-- The custom rules of a profile are cached by its ID and rebuilt when the profile's update time differs (since the C12 repair; it was "is newer"). -/
def custom_cache_conds_expected : String := "!ok | !item.updTime.Equal(c.UpdateTime)"
theorem custom_cache_conds_src : custom_cache_conds = custom_cache_conds_expected := rfl

/-- Letter case: `parseRespAnswer` hands the rule lists the *normalised* CNAME target (`Agd.Filter.ansOf`, `normName`; after the `fix:` commit), addresses in `netip`/`net.IP` rendering; the question name is normalised by the same function (`Agd.Driver.C02.host!`). -/
def resp_answer_returns_expected : String := "ans.A.String(), dns.TypeA, true | ans.AAAA.String(), dns.TypeAAAA, true | agdnet.NormalizeDomain(ans.Target), dns.TypeCNAME, true | \"\", dns.TypeNone, false"
theorem resp_answer_returns_src : resp_answer_returns = resp_answer_returns_expected := rfl
def normalize_domain_expected : String := "strings.ToLower(strings.TrimSuffix(fqdn, \".\"))"
theorem normalize_domain_src : normalize_domain = normalize_domain_expected := rfl
def req_host_normalized_expected : String := "agdnet.NormalizeDomain(q.Name)"
theorem req_host_normalized_src : req_host_normalized = req_host_normalized_expected := rfl
/-- The TTL of every synthesised record is the whole seconds of the configured duration (`Agd.Filter.durSecs`). -/
def record_ttl_whole_seconds_expected : String := "dns.RR_Header{ Name: fqdn, Rrtype: rrType, Ttl: uint32(c.fltRespTTL.Seconds()), Class: uint16(cl), }"
theorem record_ttl_whole_seconds_src : record_ttl_whole_seconds = record_ttl_whole_seconds_expected := rfl
/-- Every message the constructor builds starts as a fresh reply to the request: no answer, authority or additional records (`Msg.upExtra = 0` for all synthesised messages); a blocked-rcode response is such a message plus the EDE option. -/
def new_resp_fresh_expected : String := "(&dns.Msg{ MsgHdr: dns.MsgHdr{ RecursionAvailable: true, }, Compress: true, }).SetReply(req)"
theorem new_resp_fresh_src : new_resp_fresh = new_resp_fresh_expected := rfl
def blocked_rcode_resp_calls_expected : String := "NewResp,AddEDE"
theorem blocked_rcode_resp_calls_src : blocked_rcode_resp_calls = blocked_rcode_resp_calls_expected := rfl

/-- Debug (CHAOS-class) queries: the class is reset before filtering, the body of the answer is the filtered response, and the reported verdict is the request's unless there is none (`Agd.Filter.serveDebug`, `reportedVerdict`). -/
def debug_body_expected : String := "fctx.filteredResponse"
theorem debug_body_src : debug_body = debug_body_expected := rfl
def debug_conds_expected : String := "err != nil | err != nil | err != nil | fctx.requestResult == nil | err != nil"
theorem debug_conds_src : debug_conds = debug_conds_expected := rfl
def debug_class_reset_expected : String := "isDebug"
theorem debug_class_reset_src : debug_class_reset = debug_class_reset_expected := rfl
def debug_is_chaos_expected : String := "req.Question[0].Qclass == dns.ClassCHAOS"
theorem debug_is_chaos_src : debug_is_chaos = debug_is_chaos_expected := rfl
def filtering_data_cond_expected : String := "fctx.requestResult != nil"
theorem filtering_data_cond_src : filtering_data_cond = filtering_data_cond_expected := rfl

/-! Round 4: production wiring and the order of `Middleware.Wrap`. -/
def wire_group_lookup_expected : String := "c.FilteringGroups[srvGrp.FilteringGroup]"
theorem wire_group_lookup_src : wire_group_lookup = wire_group_lookup_expected := rfl
def wire_yaml_parental_expected : String := "&filter.ConfigParental{ PauseSchedule: nil, BlockedServices: nil, Enabled: c.Enabled, AdultBlockingEnabled: c.BlockAdult, SafeSearchGeneralEnabled: c.GeneralSafeSearch, SafeSearchYouTubeEnabled: c.YoutubeSafeSearch, }"
theorem wire_yaml_parental_src : wire_yaml_parental = wire_yaml_parental_expected := rfl
def wire_yaml_safebrowsing_expected : String := "&filter.ConfigSafeBrowsing{ Enabled: c.Enabled, DangerousDomainsEnabled: c.BlockDangerousDomains, NewlyRegisteredDomainsEnabled: c.BlockNewlyRegisteredDomains, }"
theorem wire_yaml_safebrowsing_src : wire_yaml_safebrowsing = wire_yaml_safebrowsing_expected := rfl
def wire_yaml_rulelists_expected : String := "&filter.ConfigRuleList{ IDs: ids, Enabled: c.Enabled, }"
theorem wire_yaml_rulelists_src : wire_yaml_rulelists = wire_yaml_rulelists_expected := rfl
def wire_msg_ctor_expected : String := "&dnsmsg.ConstructorConfig{ Cloner: b.cloner, BlockingMode: &dnsmsg.BlockingModeNullIP{}, StructuredErrors: b.sdeConf, FilteredResponseTTL: fltConf.ResponseTTL.Duration, EDEEnabled: fltConf.EDEEnabled, }"
theorem wire_msg_ctor_src : wire_msg_ctor = wire_msg_ctor_expected := rfl
def wire_nrd_conf_expected : String := "b.conf.SafeBrowsing"
theorem wire_nrd_conf_src : wire_nrd_conf = wire_nrd_conf_expected := rfl
def wrap_calls_expected : String := "filterRequest,Err,ServeDNS,filterResponse,setFilteredResponse,WriteMsg"
theorem wrap_calls_src : wrap_calls = wrap_calls_expected := rfl
/-- (The leading `fctx.isDebug` is the deferred restore of the CHAOS class added by the C07 repair.) -/
def wrap_conds_expected : String := "fctx.isDebug | err != nil | err != nil | fctx.isDebug | err != nil | fctx.filteredResponse != fctx.originalResponse"
theorem wrap_conds_src : wrap_conds = wrap_conds_expected := rfl
def reqinfo_pool_reset_expected : String := "mw.messages"
theorem reqinfo_pool_reset_src : reqinfo_pool_reset = reqinfo_pool_reset_expected := rfl

/-! Round 5: the backend's profile message, `backendpb.DNSProfile.toInternal` (`Agd.Filter.PbProfile.toProfile`): every setting goes to the setting of the same name, the days are reordered Sunday first, the end of a day range is the last minute (+1), an absent TTL is zero, custom rules are in force iff there are any, the blocking-mode cases in source order. -/
def pb_par_enabled_expected : String := "x.Enabled"
theorem pb_par_enabled_src : pb_par_enabled = pb_par_enabled_expected := rfl
def pb_par_adult_expected : String := "x.BlockAdult"
theorem pb_par_adult_src : pb_par_adult = pb_par_adult_expected := rfl
def pb_par_gss_expected : String := "x.GeneralSafeSearch"
theorem pb_par_gss_src : pb_par_gss = pb_par_gss_expected := rfl
def pb_par_yss_expected : String := "x.YoutubeSafeSearch"
theorem pb_par_yss_src : pb_par_yss = pb_par_yss_expected := rfl
def pb_par_svcs_expected : String := "blockedSvcsToInternal(ctx, errColl, logger, x.BlockedServices)"
theorem pb_par_svcs_src : pb_par_svcs = pb_par_svcs_expected := rfl
def pb_sb_enabled_expected : String := "x.Enabled"
theorem pb_sb_enabled_src : pb_sb_enabled = pb_sb_enabled_expected := rfl
def pb_sb_dangerous_expected : String := "x.BlockDangerousDomains"
theorem pb_sb_dangerous_src : pb_sb_dangerous = pb_sb_dangerous_expected := rfl
def pb_sb_nrd_expected : String := "x.BlockNrd"
theorem pb_sb_nrd_src : pb_sb_nrd = pb_sb_nrd_expected := rfl
def pb_rl_enabled_expected : String := "x.Enabled"
theorem pb_rl_enabled_src : pb_rl_enabled = pb_rl_enabled_expected := rfl
/-- (Nil-safe getters since the C14 repair: an absent `weekly_range` is the default message.) -/
def pb_sched_days_expected : String := "[]*DayRange{ w.GetSun(), w.GetMon(), w.GetTue(), w.GetWed(), w.GetThu(), w.GetFri(), w.GetSat(), }"
theorem pb_sched_days_src : pb_sched_days = pb_sched_days_expected := rfl
def pb_sched_ivl_expected : String := "&filter.DayInterval{ Start: uint16(d.Start.AsDuration().Minutes()), End: uint16(d.End.AsDuration().Minutes() + 1), }"
theorem pb_sched_ivl_src : pb_sched_ivl = pb_sched_ivl_expected := rfl
def pb_ttl_expected : String := "respTTL.AsDuration()"
theorem pb_ttl_src : pb_ttl = pb_ttl_expected := rfl
def pb_custom_expected : String := "&filter.ConfigCustom{ ID: string(x.DnsId), UpdateTime: updTime, Rules: customRules, Enabled: len(customRules) > 0, }"
theorem pb_custom_src : pb_custom = pb_custom_expected := rfl
def pb_mode_returns_expected : String := "&dnsmsg.BlockingModeNullIP{}, nil | pbm.BlockingModeCustomIp.toInternal() | &dnsmsg.BlockingModeNXDOMAIN{}, nil | &dnsmsg.BlockingModeNullIP{}, nil | &dnsmsg.BlockingModeREFUSED{}, nil | nil, fmt.Errorf(\"bad pb blocking mode %T(%[1]v)\", pbm)"
theorem pb_mode_returns_src : pb_mode_returns = pb_mode_returns_expected := rfl
def pb_custom_ip_conds_expected : String := "err != nil | ipv4Addr.IsValid() | err != nil | ipv6Addr.IsValid() | len(custom.IPv4)+len(custom.IPv6) == 0"
theorem pb_custom_ip_conds_src : pb_custom_ip_conds = pb_custom_ip_conds_expected := rfl
def pb_mode_cases_expected : String := "nil | *DNSProfile_BlockingModeCustomIp | *DNSProfile_BlockingModeNxdomain | *DNSProfile_BlockingModeNullIp | *DNSProfile_BlockingModeRefused | default"
theorem pb_mode_cases_src : pb_mode_cases = pb_mode_cases_expected := rfl

/-! Round 5: the special-domain handler of the initial middleware (`Agd.Filter.specialRcode`, `serveSpecial`): address types only, five fixed names in three cases, each guarded by its own switch of the profile (of the filtering group for anonymous requesters), answered with `NewRespRCode` NXDOMAIN / NXDOMAIN / REFUSED from the requester's constructor. -/
def special_handler_conds_expected : String := "qt != dns.TypeA && qt != dns.TypeAAAA | shouldBlockPrivateRelay(ri, prof) | shouldBlockChromePrefetch(ri, prof) | shouldBlockFirefoxCanary(ri, prof)"
theorem special_handler_conds_src : special_handler_conds = special_handler_conds_expected := rfl
def special_handler_cases_expected : String := "ApplePrivateRelayMaskHost,ApplePrivateRelayMaskH2Host,ApplePrivateRelayMaskCanaryHost | ChromePrefetchHost | FirefoxCanaryHost | default"
theorem special_handler_cases_src : special_handler_cases = special_handler_cases_expected := rfl
def special_relay_returns_expected : String := "prof.BlockPrivateRelay | ri.FilteringGroup.BlockPrivateRelay"
theorem special_relay_returns_src : special_relay_returns = special_relay_returns_expected := rfl
def special_prefetch_returns_expected : String := "prof.BlockChromePrefetch | ri.FilteringGroup.BlockChromePrefetch"
theorem special_prefetch_returns_src : special_prefetch_returns = special_prefetch_returns_expected := rfl
def special_canary_returns_expected : String := "prof.BlockFirefoxCanary | ri.FilteringGroup.BlockFirefoxCanary"
theorem special_canary_returns_src : special_canary_returns = special_canary_returns_expected := rfl
def special_relay_resp_expected : String := "ri.Messages.NewRespRCode(req, dns.RcodeNameError)"
theorem special_relay_resp_src : special_relay_resp = special_relay_resp_expected := rfl
def special_prefetch_resp_expected : String := "ri.Messages.NewRespRCode(req, dns.RcodeNameError)"
theorem special_prefetch_resp_src : special_prefetch_resp = special_prefetch_resp_expected := rfl
def special_canary_resp_expected : String := "ri.Messages.NewRespRCode(req, dns.RcodeRefused)"
theorem special_canary_resp_src : special_canary_resp = special_canary_resp_expected := rfl

end Agd.Tie.C02
