import Agd.Gen.C09
/-! Tie theorems for C09: the source facts the model was written against still hold in /repo. -/
namespace Agd.Tie.C09
open Agd.Gen.C09

/-- `RequestCounter.Add` compares exactly as `Agd.Ratelimit.above` does. -/
theorem add_return_src : add_return = "tail > 0 && ts-tail <= int64(1*r.ivl)" := by decide
/-- The ring holds `num + 1` stamps. -/
theorem ring_size_src : ring_size = "num + 1" := by decide
/-- `reqCounters` entries live `Period` after creation, `hitCounters` entries `Duration`. -/
theorem req_cache_src : req_cache_args = "c.Period, c.Period" := by decide
theorem hit_cache_src : hit_cache_args = "c.Duration, c.Duration" := by decide
/-- A response weighs ⌊len / estimate⌋ events. -/
theorem resp_weight_src : resp_weight = "datasize.ByteSize(resp.Len()) / l.respSzEst" := by decide
theorem is_backoff_src : is_backoff_return = "counterVal.(*atomic.Uint64).Load() >= uint64(l.count)" := by decide

end Agd.Tie.C09
