import Agd.Gen.C09
/-! Tie theorems for C09: the source facts the model was written against still hold in /repo. -/
namespace Agd.Tie.C09
open Agd.Gen.C09

/-- `RequestCounter.Add` compares exactly as `Agd.Ratelimit.above` does. -/
theorem add_return_src : add_return = "tail > 0 && ts-tail <= int64(1*r.ivl)" := by decide
/-- The ring holds `num + 1` stamps. -/
theorem ring_size_src : ring_size = "num + 1" := by decide
/-- `reqCounters` entries live `Period` after creation, `hitCounters` entries `Duration`. -/
theorem req_cache_src : req_cache_args = "c.Period, c.Period" := by decide
theorem hit_cache_src : hit_cache_args = "c.Duration, c.Duration" := by decide
/-- A response weighs ⌊len / estimate⌋ events. -/
theorem resp_weight_src : resp_weight = "datasize.ByteSize(resp.Len()) / l.respSzEst" := by decide
theorem is_backoff_src : is_backoff_return = "counterVal.(*atomic.Uint64).Load() >= uint64(l.count)" := by decide
/-- A profile's own limit is `RPS` events per second (`ProfLim` in the driver uses 10⁹ ns). -/
theorem prof_window_src : prof_window = "uint(conf.RPS), time.Second" := by decide
theorem prof_resp_weight_src : prof_resp_weight = "datasize.ByteSize(resp.Len()) / r.respSzEst" := by decide
/-- The profile limiter applies to the profile's subnets only (all clients when none are set). -/
theorem prof_subnet_cond_src :
    prof_subnet_cond = "len(r.clientSubnets) > 0 && !r.clientSubnets.Contains(remoteIP)" := by decide
/-- Only the configured protocols (plain DNS) are rate limited. -/
theorem mw_proto_gate_src : mw_proto_gate = "!slices.Contains(mw.protos, ri.Proto)" := by decide
/-- `Update` replaces the dynamic networks. -/
theorem allowlist_update_src : allowlist_update = "subnets" := by decide
theorem any_cond_src : any_cond = "l.refuseANY && qType == dns.TypeANY" := by decide
/-- The library middleware drops port-less remote addresses before consulting the limiter. -/
theorem lib_port_cond_src : lib_port_cond = "addrPort.Port() == 0" := by decide

end Agd.Tie.C09
