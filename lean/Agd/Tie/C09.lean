import Agd.Gen.C09
/-! Tie theorems for C09: the source facts the model was written against still hold in /repo. -/
namespace Agd.Tie.C09
open Agd.Gen.C09

/-- `RequestCounter.Add` compares exactly as `Agd.Ratelimit.above` does. -/
theorem add_return_src : add_return = "tail > 0 && ts-tail <= int64(1*r.ivl)" := by decide
/-- The ring holds `num + 1` stamps. -/
theorem ring_size_src : ring_size = "num + 1" := by decide
/-- `reqCounters` entries live `Period` after creation, `hitCounters` entries `Duration`. -/
theorem req_cache_src : req_cache_args = "c.Period, c.Period" := by decide
theorem hit_cache_src : hit_cache_args = "c.Duration, c.Duration" := by decide
/-- A response weighs ⌊len / estimate⌋ events. -/
theorem resp_weight_src : resp_weight = "datasize.ByteSize(resp.Len()) / l.respSzEst" := by decide
theorem is_backoff_src : is_backoff_return = "counterVal.(*atomic.Uint64).Load() >= uint64(l.count)" := by decide
/-- A profile's own limit is `RPS` events per second (`ProfLim` in the driver uses 10⁹ ns). -/
theorem prof_window_src : prof_window = "uint(conf.RPS), time.Second" := by decide
theorem prof_resp_weight_src : prof_resp_weight = "datasize.ByteSize(resp.Len()) / r.respSzEst" := by decide
/-- The profile limiter applies to the profile's subnets only (all clients when none are set). -/
theorem prof_subnet_cond_src :
    prof_subnet_cond = "len(r.clientSubnets) > 0 && !r.clientSubnets.Contains(remoteIP.WithZone(\"\"))" := by decide
/-- Only the configured protocols (plain DNS) are rate limited. -/
theorem mw_proto_gate_src : mw_proto_gate = "!slices.Contains(mw.protos, ri.Proto)" := by decide
/-- `Update` replaces the dynamic networks. -/
theorem allowlist_update_src : allowlist_update = "subnets" := by decide
theorem any_cond_src : any_cond = "l.refuseANY && qType == dns.TypeANY" := by decide
/-- The library middleware drops port-less remote addresses before consulting the limiter. -/
theorem lib_port_cond_src : lib_port_cond = "addrPort.Port() == 0" := by decide

/-- `RequestCounter.Add` runs `Push`, `Current` and the comparison inside one critical section
(`Lock`, deferred `Unlock`), on the nanosecond stamp: the shape the interleaving model
(`Model/RatelimitConc.lean`) gives the mutex variant. -/
theorem add_calls_src : add_calls = "Lock,Unlock,UnixNano,Push,Current" := by decide
/-- `incBackoff` increments an existing hit counter in place with one atomic `Add` (it is not stored
again, so its expiry stays `Duration` after the first hit) and creates it with `SetDefault`. -/
theorem inc_backoff_calls_src : inc_backoff_calls = "Get,Add,Add,SetDefault" := by decide
/-- `hasHitRateLimit`: get-or-create of the subnet's counter, then `Add`, then `incBackoff`. -/
theorem has_hit_calls_src : has_hit_calls = "Get,NewRequestCounter,SetDefault,Add,incBackoff" := by decide
/-- The order of the decisions of `IsRateLimited`: address validation, ANY refusal, allowlist, backoff,
then the family's window. -/
theorem is_rate_limited_conds_src : is_rate_limited_conds =
    "err != nil | l.refuseANY && qType == dns.TypeANY | err != nil | allowed | l.isBackoff(key) | ip.Is6()" := by
  decide
/-- A consul record allowlists exactly its host; a successful refresh replaces the dynamic networks
with the decoded ones; a failed one returns the error before `Update`. -/
theorem consul_host_prefix_src : consul_host_prefix = "r.Address.Prefix(r.Address.BitLen())" := by decide
theorem consul_update_args_src : consul_update_args = "consulNets" := by decide
theorem consul_refresh_returns_src : consul_refresh_returns = "err | nil" := by decide

/-! ## Round 3: zone handling and the glue that configures the limiters -/

/-- `DynamicAllowlist.IsAllowed` compares the address without its IPv6 zone (the `fix:` commit;
`netip.Prefix.Contains` is false for every zoned address). -/
theorem allowlist_zone_strip_src : allowlist_zone_strip = "ip.WithZone(\"\")" := by decide

def cmdBackoffConfExpected : String :=
  "&ratelimit.BackoffConfig{ Allowlist: al, ResponseSizeEstimate: c.ResponseSizeEstimate, Duration: c.BackoffDuration.Duration, Period: c.BackoffPeriod.Duration, IPv4Count: c.IPv4.Count, IPv4Interval: c.IPv4.Interval.Duration, IPv4SubnetKeyLen: c.IPv4.SubnetKeyLen, IPv6Count: c.IPv6.Count, IPv6Interval: c.IPv6.Interval.Duration, IPv6SubnetKeyLen: c.IPv6.SubnetKeyLen, Count: c.BackoffCount, RefuseANY: c.RefuseANY, }"
set_option maxRecDepth 16384 in
/-- `cmd`: every configuration value reaches the `BackoffConfig` field of the same meaning (no
v4/v6, count/interval or period/duration mix-up between the YAML structure and the limiter). -/
theorem cmd_backoff_conf_src : cmd_backoff_conf = cmdBackoffConfExpected := by decide
/-- `cmd`: the configured list is the persistent part of the allowlist, the dynamic part starts empty,
and the limiter is built from that configuration and that allowlist object. -/
theorem builder_persistent_allowlist_src : builder_persistent_allowlist = "allowSubnets, nil" := by decide
theorem builder_new_backoff_src : builder_new_backoff = "c.toInternal(allowlist)" := by decide

/-- The backend allowlist refresher: the response's `AllowedSubnets`, converted, replace the dynamic
networks. -/
theorem backend_allowed_subnets_src : backend_allowed_subnets = "backendResp.AllowedSubnets" := by decide
theorem backend_prefixes_src :
    backend_prefixes = "cidrRangeToInternal(ctx, l.errColl, l.logger, allowedSubnets)" := by decide
theorem backend_update_args_src : backend_update_args = "prefixes" := by decide
/-- A backend CIDR keeps its address bytes and its prefix length. -/
theorem pb_cidr_prefix_src : pb_cidr_prefix = "addr, int(c.Prefix)" := by decide

/-- Profile settings (backend and file cache): no settings or `Enabled = false` ⇒ the global limiter;
otherwise a limiter with the profile's `Rps` and its converted client subnets. -/
theorem pb_ratelimit_global_cond_src : pb_ratelimit_global_cond = "x == nil || !x.Enabled" := by decide
theorem fc_ratelimit_global_cond_src : fc_ratelimit_global_cond = "x == nil || !x.Enabled" := by decide
def pbRatelimitReturnsExpected : String :=
  "agd.GlobalRatelimiter{} | agd.NewDefaultRatelimiter(&agd.RatelimitConfig{ ClientSubnets: cidrRangeToInternal(ctx, errColl, logger, x.ClientCidr), RPS: x.Rps, Enabled: x.Enabled, }, respSzEst)"
set_option maxRecDepth 16384 in
theorem pb_ratelimit_returns_src : pb_ratelimit_returns = pbRatelimitReturnsExpected := by decide
def fcRatelimitReturnsExpected : String :=
  "agd.GlobalRatelimiter{} | agd.NewDefaultRatelimiter(&agd.RatelimitConfig{ ClientSubnets: cidrRangeToInternal(x.ClientCidr), RPS: x.Rps, Enabled: x.Enabled, }, respSzEst)"
set_option maxRecDepth 16384 in
theorem fc_ratelimit_returns_src : fc_ratelimit_returns = fcRatelimitReturnsExpected := by decide

/-! ## Round 4: the front of the middleware and the production wiring -/

/-- `Wrap` (three silent exits since the C10 repair: spoofed port, globally blocked, blocked by the profile): a request stopped by the device result and a request with a malformed ECS option are
finished by `serveDeviceErr` / `serveLocationErr`; everything else goes to `serveWithRatelimiting`. -/
def wrapReturnsExpected : String :=
  "nil | nil | nil | mw.serveDeviceErr(ctx, rw, req, ri, err) | mw.serveLocationErr(ctx, rw, req, ri, locErr) | mw.serveWithRatelimiting(ctx, rw, req, ri, next) | dnsserver.HandlerFunc(f)"
set_option maxRecDepth 16384 in
theorem wrap_returns_src : wrap_returns = wrapReturnsExpected := by decide
/-- `serveDeviceErr`: no error ⇒ dropped; otherwise the error is what the `next` handler returns, and
that handler is run by `serveWithRatelimiting` (model: `FReq.inner`, `.devErr`). -/
theorem device_err_returns_src :
    device_err_returns = "nil | devErr | mw.serveWithRatelimiting(ctx, rw, req, ri, h)" := by decide
def locationErrReturnsExpected : String :=
  "mw.processLocationErr(ctx, rw, req, locErr) | mw.serveWithRatelimiting(ctx, rw, req, ri, h)"
set_option maxRecDepth 16384 in
theorem location_err_returns_src : location_err_returns = locationErrReturnsExpected := by decide
/-- `dnssvc.newHandlersForServers`: every server of every server group gets the one global limiter, and
plain DNS is the only rate-limited protocol. -/
def handlersMwConfigExpected : String :=
  "&ratelimitmw.Config{ Logger: rlMwLogger, Messages: c.Messages, FilteringGroup: fltGrp, ServerGroup: srvGrp, Server: srv, StructuredErrors: c.StructuredErrors, AccessManager: c.AccessManager, DeviceFinder: newDeviceFinder(c, srvGrp, srv), ErrColl: c.ErrColl, GeoIP: c.GeoIP, Metrics: rlMwMtrc, Limiter: c.RateLimit, Protocols: []agd.Protocol{agd.ProtoDNS}, EDEEnabled: c.EDEEnabled, }"
set_option maxRecDepth 16384 in
theorem handlers_mw_config_src : handlers_mw_config = handlersMwConfigExpected := by decide
/-- `cmd`: the profiles' limiters weigh responses by the same `response_size_estimate` as the global one. -/
theorem builder_profile_resp_size_src :
    builder_profile_resp_size = "b.conf.RateLimit.ResponseSizeEstimate" := by decide
/-- `cmd`: the backend updater for type `backend`, the consul updater otherwise; every failure,
including that of the initial refresh, stops the start-up. -/
theorem builder_allowlist_type_cond_src : builder_allowlist_type_cond =
    "err != nil | typ == rlAllowlistTypeBackend | err != nil | err != nil | err != nil" := by decide

/-- `cmd` (round 5): the limiter that `builder.initRateLimiter` has built (`b.rateLimit`, with the
configured allowlist and its updater) is the one `builder.initDNS` hands to `dnssvc.NewHandlers` — not a
second limiter built from the same section. -/
def builderHandlersConfExpected : String :=
  "&dnssvc.HandlersConfig{ BaseLogger: b.baseLogger, Cache: b.conf.Cache.toInternal(), Cloner: b.cloner, HumanIDParser: agd.NewHumanIDParser(), Messages: b.messages, PluginRegistry: b.plugins, StructuredErrors: b.sdeConf, AccessManager: b.access, BillStat: b.billStat, CacheManager: b.cacheManager, DNSCheck: b.dnsCheck, DNSDB: b.dnsDB, ErrColl: b.errColl, FilterStorage: b.filterStorage, GeoIP: b.geoIP, Handler: b.fwdHandler, HashMatcher: b.hashMatcher, ProfileDB: b.profileDB, PrometheusRegisterer: b.promRegisterer, QueryLog: b.queryLog(), RateLimit: b.rateLimit, RuleStat: b.ruleStat, MetricsNamespace: b.mtrcNamespace, FilteringGroups: b.filteringGroups, ServerGroups: b.serverGroups, EDEEnabled: b.conf.Filters.EDEEnabled, }"
set_option maxRecDepth 32768 in
theorem builder_handlers_conf_src : builder_handlers_conf = builderHandlersConfExpected := by decide

end Agd.Tie.C09
