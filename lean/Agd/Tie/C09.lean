import Agd.Gen.C09
/-! Tie theorems for C09: the source facts the model was written against still hold in /repo. -/
namespace Agd.Tie.C09
open Agd.Gen.C09

/-- `RequestCounter.Add` compares exactly as `Agd.Ratelimit.above` does. -/
theorem add_return_src : add_return = "tail > 0 && ts-tail <= int64(1*r.ivl)" := by decide
/-- The ring holds `num + 1` stamps. -/
theorem ring_size_src : ring_size = "num + 1" := by decide
/-- `reqCounters` entries live `Period` after creation, `hitCounters` entries `Duration`. -/
theorem req_cache_src : req_cache_args = "c.Period, c.Period" := by decide
theorem hit_cache_src : hit_cache_args = "c.Duration, c.Duration" := by decide
/-- A response weighs ⌊len / estimate⌋ events. -/
theorem resp_weight_src : resp_weight = "datasize.ByteSize(resp.Len()) / l.respSzEst" := by decide
theorem is_backoff_src : is_backoff_return = "counterVal.(*atomic.Uint64).Load() >= uint64(l.count)" := by decide
/-- A profile's own limit is `RPS` events per second (`ProfLim` in the driver uses 10⁹ ns). -/
theorem prof_window_src : prof_window = "uint(conf.RPS), time.Second" := by decide
theorem prof_resp_weight_src : prof_resp_weight = "datasize.ByteSize(resp.Len()) / r.respSzEst" := by decide
/-- The profile limiter applies to the profile's subnets only (all clients when none are set). -/
theorem prof_subnet_cond_src :
    prof_subnet_cond = "len(r.clientSubnets) > 0 && !r.clientSubnets.Contains(remoteIP)" := by decide
/-- Only the configured protocols (plain DNS) are rate limited. -/
theorem mw_proto_gate_src : mw_proto_gate = "!slices.Contains(mw.protos, ri.Proto)" := by decide
/-- `Update` replaces the dynamic networks. -/
theorem allowlist_update_src : allowlist_update = "subnets" := by decide
theorem any_cond_src : any_cond = "l.refuseANY && qType == dns.TypeANY" := by decide
/-- The library middleware drops port-less remote addresses before consulting the limiter. -/
theorem lib_port_cond_src : lib_port_cond = "addrPort.Port() == 0" := by decide

/-- `RequestCounter.Add` runs `Push`, `Current` and the comparison inside one critical section
(`Lock`, deferred `Unlock`), on the nanosecond stamp: the shape the interleaving model
(`Model/RatelimitConc.lean`) gives the mutex variant. -/
theorem add_calls_src : add_calls = "Lock,Unlock,UnixNano,Push,Current" := by decide
/-- `incBackoff` increments an existing hit counter in place with one atomic `Add` (it is not stored
again, so its expiry stays `Duration` after the first hit) and creates it with `SetDefault`. -/
theorem inc_backoff_calls_src : inc_backoff_calls = "Get,Add,Add,SetDefault" := by decide
/-- `hasHitRateLimit`: get-or-create of the subnet's counter, then `Add`, then `incBackoff`. -/
theorem has_hit_calls_src : has_hit_calls = "Get,NewRequestCounter,SetDefault,Add,incBackoff" := by decide
/-- The order of the decisions of `IsRateLimited`: address validation, ANY refusal, allowlist, backoff,
then the family's window. -/
theorem is_rate_limited_conds_src : is_rate_limited_conds =
    "err != nil | l.refuseANY && qType == dns.TypeANY | err != nil | allowed | l.isBackoff(key) | ip.Is6()" := by
  decide
/-- A consul record allowlists exactly its host; a successful refresh replaces the dynamic networks
with the decoded ones; a failed one returns the error before `Update`. -/
theorem consul_host_prefix_src : consul_host_prefix = "r.Address.Prefix(r.Address.BitLen())" := by decide
theorem consul_update_args_src : consul_update_args = "consulNets" := by decide
theorem consul_refresh_returns_src : consul_refresh_returns = "err | nil" := by decide

end Agd.Tie.C09
