import Agd.Gen.C06
/-! Tie theorems for C06: the slice expressions, guards and buffer sizes the model
(`Agd/Model/Buffers.lean`) was written against are still what /repo's source says. -/
namespace Agd.Tie.C06
open Agd.Gen.C06

/-! DoQ (`readQUICMsg`): `recvDoQ`. -/
theorem doq_unpack_src : doq_unpack_arg = "buf[2:n]" := by decide
theorem doq_short_guard_src : doq_short_guard = "n < DNSHeaderSize" := by decide
theorem doq_prefix_guard_src : doq_prefix_guard = "packetLen == wantLen" := by decide
theorem doq_packet_len_src : doq_packet_len = "binary.BigEndian.Uint16(buf[:2])" := by decide
theorem doq_want_len_src : doq_want_len = "uint16(n - 2)" := by decide
theorem doq_read_src : doq_read = "stream, buf" := by decide
theorem doq_buf_reslice_src : doq_buf_reslice = "buf[:quicBytePoolSize]" := by decide
/-- After the `fix:` commit for C01 the DoQ buffer holds a maximum-size message and its 2-octet prefix. -/
theorem doq_pool_size_src : doq_pool_size = "dns.MaxMsgSize + 2" := by decide
theorem dns_header_size_src : dns_header_size = "12" := by decide

/-! Plain DNS over UDP: `recvUDP`. -/
theorem udp_serve_args_src : udp_serve_args = "reqCtx, (*bufPtr)[:n], conn, sess" := by decide
theorem udp_short_guard_src : udp_short_guard = "n < DNSHeaderSize" := by decide
theorem udp_read_args_src : udp_read_args = "conn, buf" := by decide
theorem udp_serve_dns_args_src : udp_serve_dns_args = "ctx, buf, rw" := by decide

/-! Plain DNS over TCP / DoT: `recvTCP`, `growTo`. -/
theorem tcp_grow_cond_src : tcp_grow_cond = "l < length" := by decide
theorem tcp_grow_src : tcp_grow = "slices.Grow(buf, length-l)" := by decide
theorem tcp_reslice_src : tcp_reslice = "buf[:length]" := by decide
theorem tcp_readfull_args_src : tcp_readfull_args = "conn, *bufPtr" := by decide
theorem tcp_buffer_len_src : tcp_buffer_len = "int(length)" := by decide
theorem tcp_serve_args_src : tcp_serve_args = "reqCtx, wg, writeMu, *bufPtr, conn" := by decide

/-! `serveDNS` unpacks exactly the slice it is given (UDP, TCP, DoT, DoH). -/
theorem serve_dns_unpack_src : serve_dns_unpack_arg = "buf" := by decide

/-! DoH: a slice freshly allocated by `io.ReadAll` goes straight to `serveDNS`: `recvDoH`. -/
theorem doh_post_read_src : doh_post_read = "req.Body" := by decide
theorem doh_post_return_src : doh_post_return = "buf, err" := by decide
theorem doh_serve_args_src : doh_serve_args = "ctx, m, rw" := by decide

/-! Upstream replies (`UpstreamPlain.readMsg`): `recvUpsUDP`, `recvUpsTCP`. -/
theorem ups_unpack_src : ups_unpack_arg = "buf[:n]" := by decide
theorem ups_short_guard_src : ups_short_guard = "n < minDNSMessageSize" := by decide
theorem ups_tcp_readfull_args_src : ups_tcp_readfull_args = "conn, buf[:length]" := by decide
theorem ups_udp_read_args_src : ups_udp_read_args = "buf" := by decide
theorem ups_min_size_src : ups_min_size = "12 + 5" := by decide
theorem ups_udp_buf_size_src : ups_udp_buf_size = "4096" := by decide
theorem ups_tcp_buf_size_src : ups_tcp_buf_size = "dns.MaxMsgSize" := by decide
theorem ups_read_valid_args_src : ups_read_valid_args = "network, conn, buf" := by decide

/-! Pool discipline (`Sys.accept` / `Sys.serve`): the buffer is `Put` back only on the error path of
the read and, in the worker closure, after the call that decodes it. -/
theorem udp_pool_order_src :
    udp_pool_order = "udpPool.Get,readUDPMsg,udpPool.Put,Submit,serveUDPPacket,udpPool.Put" := by decide
theorem tcp_pool_order_src : tcp_pool_order = "readTCPMsg,Submit,serveTCPMessage,tcpPool.Put" := by decide
theorem tcp_read_pool_order_src : tcp_read_pool_order = "getTCPBuffer,ReadFull,tcpPool.Put" := by decide
theorem doq_pool_order_src : doq_pool_order = "reqPool.Get,reqPool.Put,readAll,Unpack" := by decide
/-- After the `fix:` commit for C06 (round 3) the request is packed again before the second attempt. -/
theorem ups_pool_order_src :
    ups_pool_order = "getBuffer,putBuffer,packReq,processConn,packReq,processConn" := by decide
theorem doq_readall_read_arg_src : doq_readall_read_arg = "buf[n:]" := by decide

/-! Response side (`packUDP`, `packWithPrefix`): what is packed into and what is written. -/
theorem udp_resp_pack_arg_src : udp_resp_pack_arg = "*bufPtr" := by decide
theorem udp_resp_write_args_src : udp_resp_write_args = "r.conn, b, r.udpSession" := by decide
theorem tcp_resp_pack_args_src : tcp_resp_pack_args = "resp, *bufPtr" := by decide
theorem tcp_resp_write_arg_src : tcp_resp_write_arg = "b" := by decide
theorem doq_resp_write_arg_src : doq_resp_write_arg = "b" := by decide
theorem pfx_grow_src : pfx_grow = "slices.Grow(buf, 2)[:l+2]" := by decide
theorem pfx_copy_args_src : pfx_copy_args = "packed[2:], buf" := by decide
theorem pfx_put_args_src : pfx_put_args = "packed[:2], uint16(l)" := by decide

/-! Request side of the upstream exchange (`packReq`, `retryWrites`): the slice `PackBuffer` returns is
copied into the buffer, the write takes `buf[:bufReqLen]`, the retry packs again into the same buffer. -/
theorem ups_packreq_pack_arg_src : ups_packreq_pack_arg = "msgBuf" := by decide
theorem ups_packreq_copy_args_src : ups_packreq_copy_args = "msgBuf, packed" := by decide
theorem ups_packreq_msgbuf_src : ups_packreq_msgbuf = "buf[2:]" := by decide
theorem ups_packreq_prefix_args_src : ups_packreq_prefix_args = "buf, uint16(n)" := by decide
theorem ups_packreq_guard_tcp_src : ups_packreq_guard_tcp = "reqLen > len(buf)-2" := by decide
theorem ups_packreq_guard_udp_src : ups_packreq_guard_udp = "reqLen > len(buf)" := by decide
theorem ups_packreq_guard_packed_src : ups_packreq_guard_packed = "len(packed) > len(msgBuf)" := by decide
theorem ups_write_arg_src : ups_write_arg = "buf[:bufReqLen]" := by decide
theorem ups_retry_packreq_args_src : ups_retry_packreq_args = "network, buf, req" := by decide
theorem ups_process_args_src :
    ups_process_args = "ctx, conn, connsPool, network, req, buf, bufReqLen" := by decide

/-! DoH GET: the parameter is decoded into a fresh slice. -/
theorem doh_get_decode_src : doh_get_decode = "b64[0]" := by decide

/-! Round 4.  UDP control data (`recvOOB`): the pooled buffer is what `ReadMsgUDP` writes into, only
`oob[:oobn]` is parsed, the session is a new struct per datagram.  Buffer sizes of the plain-DNS
servers when the builder (`dnssvc.NewListener`) sets none: 512 (`Cfg.prod`). -/
theorem oob_parse_arg_src : oob_parse_arg = "oob[:oobn]" := by decide
theorem oob_read_args_src : oob_read_args = "b, oob" := by decide
theorem oob_session_fresh_src : oob_session_fresh = "&packetSession{}" := by decide
theorem dns_default_udp_size_src : dns_default_udp_size = "cmp.Or(conf.UDPSize, dns.MinMsgSize)" := by decide
theorem dns_default_tcp_size_src : dns_default_tcp_size = "cmp.Or(conf.TCPSize, dns.MinMsgSize)" := by decide

/-! Round 5.  Writers and pools (`writeW`, `realWiring`): both plain-DNS writers are constructed with
`s.respPool`; a writer takes its buffer from the pool it was constructed with, stores the packed slice
back into `*bufPtr` (`*bufPtr = b`: the pooled slice is re-sliced) and gives it back when `err != nil`
(DoQ: deferred, always); the receive paths take theirs from `udpPool` / `tcpPool` / `reqPool` and
touch no other pool; `newServerDNS` makes three pools (`UDPSize`, `TCPSize`, `dns.MinMsgSize`),
`NewServerQUIC` two. -/
def udpWriterCtor : String :=
  "&udpResponseWriter{ respPool: s.respPool, udpSession: sess, conn: conn, writeTimeout: s.conf.WriteTimeout, maxRespSize: s.conf.MaxUDPRespSize, }"
def tcpWriterCtor : String :=
  "&tcpResponseWriter{ respPool: s.respPool, writeMu: writeMu, conn: conn, writeTimeout: s.conf.WriteTimeout, idleTimeout: s.conf.TCPIdleTimeout, }"
set_option maxRecDepth 16384 in
theorem udp_writer_ctor_src : udp_writer_ctor = udpWriterCtor := by decide
set_option maxRecDepth 16384 in
theorem tcp_writer_ctor_src : tcp_writer_ctor = tcpWriterCtor := by decide
theorem udp_writer_get_src : udp_writer_get = "r.respPool.Get()" := by decide
theorem udp_writer_reslice_src : udp_writer_reslice = "b" := by decide
theorem udp_writer_pool_calls_src :
    udp_writer_pool_calls = "respPool.Get,respPool.Put,PackBuffer,WriteToSession" := by decide
theorem udp_writer_put_cond_src : udp_writer_put_cond = "err != nil" := by decide
theorem tcp_writer_get_src : tcp_writer_get = "r.respPool.Get()" := by decide
theorem tcp_writer_reslice_src : tcp_writer_reslice = "b" := by decide
theorem tcp_writer_pool_calls_src :
    tcp_writer_pool_calls = "respPool.Get,respPool.Put,packWithPrefix,conn.Write" := by decide
theorem tcp_writer_put_cond_src : tcp_writer_put_cond = "err != nil" := by decide
theorem doq_writer_get_src : doq_writer_get = "s.respPool.Get()" := by decide
theorem doq_writer_pool_calls_src :
    doq_writer_pool_calls = "respPool.Get,respPool.Put,packWithPrefix,stream.Write" := by decide
theorem doq_reader_get_src : doq_reader_get = "s.reqPool.Get()" := by decide
theorem udp_reader_get_src : udp_reader_get = "s.udpPool.Get()" := by decide
theorem udp_reader_pool_calls_src : udp_reader_pool_calls = "udpPool.Get,udpPool.Put,udpPool.Put" := by decide
theorem tcp_reader_get_src : tcp_reader_get = "s.tcpPool.Get()" := by decide
theorem dns_pools_new_src : dns_pools_new = "3" := by decide
theorem dns_pool_new_0_src : dns_pool_new_0 = "conf.UDPSize" := by decide
theorem dns_pool_new_1_src : dns_pool_new_1 = "conf.TCPSize" := by decide
theorem dns_pool_new_2_src : dns_pool_new_2 = "dns.MinMsgSize" := by decide
theorem doq_pools_new_src : doq_pools_new = "2" := by decide

end Agd.Tie.C06
