import Agd.Gen.C06
/-! Tie theorems for C06: the slice expressions, guards and buffer sizes the model
(`Agd/Model/Buffers.lean`) was written against are still what /repo's source says. -/
namespace Agd.Tie.C06
open Agd.Gen.C06

/-! DoQ (`readQUICMsg`): `recvDoQ`. -/
theorem doq_unpack_src : doq_unpack_arg = "buf[2:n]" := by decide
theorem doq_short_guard_src : doq_short_guard = "n < DNSHeaderSize" := by decide
theorem doq_prefix_guard_src : doq_prefix_guard = "packetLen == wantLen" := by decide
theorem doq_packet_len_src : doq_packet_len = "binary.BigEndian.Uint16(buf[:2])" := by decide
theorem doq_want_len_src : doq_want_len = "uint16(n - 2)" := by decide
theorem doq_read_src : doq_read = "stream, buf" := by decide
theorem doq_buf_reslice_src : doq_buf_reslice = "buf[:quicBytePoolSize]" := by decide
theorem doq_pool_size_src : doq_pool_size = "dns.MaxMsgSize" := by decide
theorem dns_header_size_src : dns_header_size = "12" := by decide

/-! Plain DNS over UDP: `recvUDP`. -/
theorem udp_serve_args_src : udp_serve_args = "reqCtx, (*bufPtr)[:n], conn, sess" := by decide
theorem udp_short_guard_src : udp_short_guard = "n < DNSHeaderSize" := by decide
theorem udp_read_args_src : udp_read_args = "conn, buf" := by decide
theorem udp_serve_dns_args_src : udp_serve_dns_args = "ctx, buf, rw" := by decide

/-! Plain DNS over TCP / DoT: `recvTCP`, `growTo`. -/
theorem tcp_grow_cond_src : tcp_grow_cond = "l < length" := by decide
theorem tcp_grow_src : tcp_grow = "slices.Grow(buf, length-l)" := by decide
theorem tcp_reslice_src : tcp_reslice = "buf[:length]" := by decide
theorem tcp_readfull_args_src : tcp_readfull_args = "conn, *bufPtr" := by decide
theorem tcp_buffer_len_src : tcp_buffer_len = "int(length)" := by decide
theorem tcp_serve_args_src : tcp_serve_args = "reqCtx, wg, writeMu, *bufPtr, conn" := by decide

/-! `serveDNS` unpacks exactly the slice it is given (UDP, TCP, DoT, DoH). -/
theorem serve_dns_unpack_src : serve_dns_unpack_arg = "buf" := by decide

/-! DoH: a slice freshly allocated by `io.ReadAll` goes straight to `serveDNS`: `recvDoH`. -/
theorem doh_post_read_src : doh_post_read = "req.Body" := by decide
theorem doh_post_return_src : doh_post_return = "buf, err" := by decide
theorem doh_serve_args_src : doh_serve_args = "ctx, m, rw" := by decide

/-! Upstream replies (`UpstreamPlain.readMsg`): `recvUpsUDP`, `recvUpsTCP`. -/
theorem ups_unpack_src : ups_unpack_arg = "buf[:n]" := by decide
theorem ups_short_guard_src : ups_short_guard = "n < minDNSMessageSize" := by decide
theorem ups_tcp_readfull_args_src : ups_tcp_readfull_args = "conn, buf[:length]" := by decide
theorem ups_udp_read_args_src : ups_udp_read_args = "buf" := by decide
theorem ups_min_size_src : ups_min_size = "12 + 5" := by decide
theorem ups_udp_buf_size_src : ups_udp_buf_size = "4096" := by decide
theorem ups_tcp_buf_size_src : ups_tcp_buf_size = "dns.MaxMsgSize" := by decide
theorem ups_read_valid_args_src : ups_read_valid_args = "network, conn, buf" := by decide

end Agd.Tie.C06
