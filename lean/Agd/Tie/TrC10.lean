import Agd.Gen.TrC10
/-!
# C10: the access decision and its place in the request path, as translated from the source

`Agd.Gen.TrC10.*` are regenerated on every run (`extract/tr.go`) from `internal/access/profile.go`
(`matchASNs`, `isBlockedByNets`, `IsBlocked`) and `internal/dnssvc/internal/ratelimitmw`
(`isBlockedByAccess`, and the handler closure that `Middleware.Wrap` returns).  The engines
(`IsBlockedIP`, `IsBlockedHost`, the profile's `IsBlocked`), the device finder and the next handler
are opaque: their results are parameters, the calls appear in the returned trace.  All theorems are
about the translated definitions themselves and hold for every value of every parameter.
-/
namespace Agd.Tie.TrC10
open Agd.Gen.TrC10 Agd.TrPrelude

theorem translation_complete : translationFailures = [] := by decide

def names (tr : List (String × List String)) : List String := tr.map (·.1)

/-! ## Profile access: ASNs and subnets -/

/-- `matchASNs` never dereferences a nil location; it holds iff there is a location whose ASN is listed. -/
theorem matchASNs_spec (asns : List Int) (l : Option S_geoip_Location) :
    matchASNs asns l = some (match l with | none => false | some loc => asns.contains loc.ASN) := by
  cases l <;> simp [matchASNs]

/-- Within a profile an allowed ASN or subnet takes precedence over a blocked one: the client is
blocked by networks iff nothing allows it and something blocks it (`a`, `b`: does an allowed /
blocked subnet contain the address). -/
theorem allowed_over_blocked (p : S_access_DefaultProfile) (l : Option S_geoip_Location) (a b : Bool) :
    isBlockedByNets p l a b =
      some (!((match l with | none => false | some loc => p.allowedASN.contains loc.ASN) || a) &&
            ((match l with | none => false | some loc => p.blockedASN.contains loc.ASN) || b)) := by
  simp only [isBlockedByNets, matchASNs_spec, Option.bind_some]
  cases l with
  | none => cases a <;> simp
  | some loc =>
    cases ha : p.allowedASN.contains loc.ASN <;> cases a <;> simp_all

/-- The profile verdict: networks or blocked-name rules. -/
theorem profile_blocked_iff (p : S_access_DefaultProfile) (l : Option S_geoip_Location) (u : Unit) (nets hosts : Bool) :
    profile_IsBlocked p l u nets hosts = (nets || hosts) := by
  simp [profile_IsBlocked]

/-! ## `isBlockedByAccess` -/

/-- A request is rejected iff the global engine blocks its address, or its question, or it has a
profile whose access settings reject it — nothing else enters the decision (in particular not the
filtering switches of the profile or device). -/
theorem access_blocked_iff (mw : S_ratelimitmw_Middleware) (ri : Option S_agd_RequestInfo) (host name : String)
    (ip hostB : Bool) (dd : Option S_agd_Profile × Option S_agd_Device) (prof : Bool) :
    (isBlockedByAccess mw ri host name ip hostB dd prof).1 = (ip || hostB || (dd.1.isSome && prof)) := by
  unfold isBlockedByAccess
  cases ip <;> cases hostB <;> cases hd : dd.1 <;> cases prof <;> simp [hd]

/-- Order of consultation: global subnets, then global names (with the normalised question name),
then — only for a request with a profile that nothing global rejects — the profile. -/
theorem access_order (mw : S_ratelimitmw_Middleware) (ri : Option S_agd_RequestInfo) (host name : String)
    (ip hostB : Bool) (dd : Option S_agd_Profile × Option S_agd_Device) (prof : Bool) :
    let tr := names (isBlockedByAccess mw ri host name ip hostB dd prof).2
    tr.take 2 = ["NormalizeQueryDomain", "IsBlockedIP"] ∧
    (ip = true → "IsBlockedHost" ∉ tr ∧ "IsBlocked" ∉ tr) ∧
    (ip = false → hostB = true → "IsBlockedHost" ∈ tr ∧ "IsBlocked" ∉ tr) ∧
    ("IsBlocked" ∈ tr ↔ (ip = false ∧ hostB = false ∧ dd.1.isSome)) := by
  unfold isBlockedByAccess names
  cases ip <;> cases hostB <;> cases hd : dd.1 <;> cases prof <;> simp [hd]

/-! ## The handler: a rejected request reaches no later stage -/

/-- Calls that process, answer or account a request. -/
def laterStages : List String :=
  ["handleDeviceResult", "serveDeviceErr", "serveLocationErr", "ContextWithRequestInfo", "serveWithRatelimiting"]

/-- When the access check rejects the request, the handler returns no error, and neither the device
result (nor `serveDeviceErr`), nor a malformed-ECS answer (`serveLocationErr`; both names since the C09 repair,
which sends these two answers through the rate limiter), nor the rest of the pipeline is reached; the request-info object is
given back to its pool exactly once, as the last effect.  (Hypotheses: a usable peer port and a
request info, as `newRequestInfo` always returns one.) -/
theorem blocked_reaches_nothing (mw : S_ratelimitmw_Middleware) (u1 u3 : Unit) (port : Int)
    (loc : Option S_geoip_Location × Option S_dnsmsg_ECS × Option String) (ri : S_agd_RequestInfo)
    (dev : Bool × Option String) (de le : Option String) (cx : AbsPtr) (next : Option String) (hp : port ≠ 0) :
    ∃ tr, Wrap_handler mw u1 port u3 loc (some ri) true dev de le cx next = some (none, tr) ∧
      (∀ s ∈ laterStages, s ∉ names tr) ∧ (names tr).count "Put" = 1 ∧ (names tr).getLast? = some "Put" := by
  simp [Wrap_handler, hp, names, laterStages]

/-- The access check comes before everything that could answer the client: in every run that gets as
far as the device result or the malformed-ECS answer, `isBlockedByAccess` has been called earlier. -/
theorem access_checked_first (mw : S_ratelimitmw_Middleware) (u1 u3 : Unit) (port : Int)
    (loc : Option S_geoip_Location × Option S_dnsmsg_ECS × Option String) (ri : S_agd_RequestInfo)
    (blocked : Bool) (dev : Bool × Option String) (de le : Option String) (cx : AbsPtr) (next : Option String)
    (r : Option String) (tr : List (String × List String))
    (h : Wrap_handler mw u1 port u3 loc (some ri) blocked dev de le cx next = some (r, tr)) (s : String)
    (hs : s ∈ laterStages) (hin : s ∈ names tr) :
    ∃ pre post, names tr = pre ++ "isBlockedByAccess" :: post ∧ s ∉ pre := by
  by_cases hp : port = 0
  · simp [Wrap_handler, hp] at h
    obtain ⟨_, rfl⟩ := h
    simp [laterStages, names] at hs hin
    rcases hs with rfl | rfl | rfl | rfl | rfl <;> simp at hin
  · refine ⟨["location", "newRequestInfo"], (names tr).drop 3, ?_, ?_⟩
    · cases blocked <;> cases hc : dev.1 <;> cases hl : loc.2.2 <;>
        simp [Wrap_handler, hp, hc, hl] at h <;> obtain ⟨_, rfl⟩ := h <;> simp [names]
    · simp [laterStages] at hs
      rcases hs with rfl | rfl | rfl | rfl | rfl <;> simp

/-- A request that nothing rejects is processed: the device result is handled and, if it lets the
request continue and the ECS option was fine, the rest of the pipeline runs. -/
theorem unblocked_is_processed (mw : S_ratelimitmw_Middleware) (u1 u3 : Unit) (port : Int)
    (l : Option S_geoip_Location) (e : Option S_dnsmsg_ECS) (ri : S_agd_RequestInfo)
    (de le : Option String) (cx : AbsPtr) (next : Option String) (hp : port ≠ 0) :
    ∃ tr, Wrap_handler mw u1 port u3 (l, e, none) (some ri) false (true, none) de le cx next = some (next, tr) ∧
      "serveWithRatelimiting" ∈ names tr := by
  simp [Wrap_handler, hp, names]

/-- Non-vacuity of the handler theorems: a concrete run in which the access check rejects the request. -/
example (mw : S_ratelimitmw_Middleware) (ri : S_agd_RequestInfo) :
    (Wrap_handler mw () 53 () (none, none, none) (some ri) true (true, none) none none true none).map (·.1) = some none := by
  simp [Wrap_handler]

/-! ## Where the profile's access object comes from (third deepening)

`backendpb.AccessSettings.toInternal` and `filecachepb.Access.toInternal`: the returned interface value
is abstract (`true` = non-nil), the construction of a `DefaultProfile` is a traced call. -/

/-- The backend converter never panics (nil message included). -/
theorem backend_access_total (x : Option S_backendpb_AccessSettings) (o : Option S_access_DefaultProfile) :
    accessSettings_toInternal x o ≠ none := by
  cases x with
  | none => simp [accessSettings_toInternal]
  | some s => cases he : s.Enabled <;> simp [accessSettings_toInternal, he]

/-- A `DefaultProfile` (the only thing that can reject a request) is built exactly when the message
exists and its `enabled` switch is on; otherwise nothing is built (`EmptyProfile`). -/
theorem backend_access_enabled_iff (x : Option S_backendpb_AccessSettings) (o : Option S_access_DefaultProfile) :
    (accessSettings_toInternal x o).map (fun r => names r.2) =
      some (if (x.map (·.Enabled)).getD false then ["NewDefaultProfile"] else []) := by
  cases x with
  | none => simp [accessSettings_toInternal, names]
  | some s => cases he : s.Enabled <;> simp [accessSettings_toInternal, he, names]

/-- The cache converter builds a `DefaultProfile` exactly when the cache holds an access message (the
cache has no `enabled` switch: disabled settings were written as "no message"). -/
theorem cache_access_present_iff (x : Option S_filecachepb_Access) (o : Option S_access_DefaultProfile) :
    names (cacheAccess_toInternal x o).2 = (if x.isSome then ["NewDefaultProfile"] else []) := by
  cases x <;> simp [cacheAccess_toInternal, names]

end Agd.Tie.TrC10

#print axioms Agd.Tie.TrC10.translation_complete
#print axioms Agd.Tie.TrC10.matchASNs_spec
#print axioms Agd.Tie.TrC10.allowed_over_blocked
#print axioms Agd.Tie.TrC10.profile_blocked_iff
#print axioms Agd.Tie.TrC10.access_blocked_iff
#print axioms Agd.Tie.TrC10.access_order
#print axioms Agd.Tie.TrC10.blocked_reaches_nothing
#print axioms Agd.Tie.TrC10.access_checked_first
#print axioms Agd.Tie.TrC10.unblocked_is_processed
#print axioms Agd.Tie.TrC10.backend_access_total
#print axioms Agd.Tie.TrC10.backend_access_enabled_iff
#print axioms Agd.Tie.TrC10.cache_access_present_iff
