import Agd.Gen.TrC10
import Agd.Model.Access
/-!
# C10: the access decision and its place in the request path, as translated from the source

`Agd.Gen.TrC10.*` are regenerated on every run (`extract/tr.go`) from `internal/access/profile.go`
(`matchASNs`, `isBlockedByNets`, `IsBlocked`) and `internal/dnssvc/internal/ratelimitmw`
(`isBlockedGlobally` / `isBlockedByProfile` — `isBlockedByAccess` until the fifth deepening —, and the handler closure that `Middleware.Wrap` returns).  The engines
(`IsBlockedIP`, `IsBlockedHost`, the profile's `IsBlocked`), the device finder and the next handler
are opaque: their results are parameters, the calls appear in the returned trace.  All theorems are
about the translated definitions themselves and hold for every value of every parameter.
-/
set_option linter.unusedSimpArgs false
namespace Agd.Tie.TrC10
open Agd.Gen.TrC10 Agd.TrPrelude

theorem translation_complete : translationFailures = [] := by decide

def names (tr : List (String × List String)) : List String := tr.map (·.1)

/-! ## Profile access: ASNs and subnets -/

/-- `matchASNs` never dereferences a nil location; it holds iff there is a location whose ASN is listed. -/
theorem matchASNs_spec (asns : List Int) (l : Option S_geoip_Location) :
    matchASNs asns l = some (match l with | none => false | some loc => asns.contains loc.ASN) := by
  cases l <;> simp [matchASNs]

/-- Within a profile an allowed ASN or subnet takes precedence over a blocked one: the client is
blocked by networks iff nothing allows it and something blocks it (`a`, `b`: does an allowed /
blocked subnet contain the address). -/
theorem allowed_over_blocked (p : S_access_DefaultProfile) (l : Option S_geoip_Location) (a b : Bool) :
    isBlockedByNets p l a b =
      some (!((match l with | none => false | some loc => p.allowedASN.contains loc.ASN) || a) &&
            ((match l with | none => false | some loc => p.blockedASN.contains loc.ASN) || b)) := by
  simp only [isBlockedByNets, matchASNs_spec, Option.bind_some]
  cases l with
  | none => cases a <;> simp
  | some loc =>
    cases ha : p.allowedASN.contains loc.ASN <;> cases a <;> simp_all

/-- The profile verdict: networks or blocked-name rules. -/
theorem profile_blocked_iff (p : S_access_DefaultProfile) (l : Option S_geoip_Location) (u : Unit) (nets hosts : Bool) :
    profile_IsBlocked p l u nets hosts = (nets || hosts) := by
  simp [profile_IsBlocked]

/-! ## `isBlockedGlobally` and `isBlockedByProfile` (fifth deepening: the former `isBlockedByAccess`, split so that
the global part can run before the device lookup) -/

/-- The handler's access decision as the two translated functions compose it in `Wrap`: the profile
part is consulted only when the global part lets the request pass. -/
def accessDecision (mw : S_ratelimitmw_Middleware) (ri : Option S_agd_RequestInfo) (q : Unit) (host name : String)
    (ip hostB : Bool) (qt : Int) (dd : Option S_agd_Profile × Option S_agd_Device) (prof : Bool) : Bool :=
  (isBlockedGlobally mw q host name ip hostB qt).1 || (isBlockedByProfile mw ri dd prof).1

/-- A request is rejected iff the global engine blocks its address, or its question, or it has a
profile whose access settings reject it — nothing else enters the decision (in particular not the
filtering switches of the profile or device). -/
theorem access_blocked_iff (mw : S_ratelimitmw_Middleware) (ri : Option S_agd_RequestInfo) (q : Unit) (host name : String)
    (ip hostB : Bool) (qt : Int) (dd : Option S_agd_Profile × Option S_agd_Device) (prof : Bool) :
    accessDecision mw ri q host name ip hostB qt dd prof = (ip || hostB || (dd.1.isSome && prof)) := by
  unfold accessDecision isBlockedGlobally isBlockedByProfile
  cases ip <;> cases hostB <;> cases hd : dd.1 <;> cases prof <;> simp [hd]

/-- Order of consultation inside the two functions: global subnets, then global names (with the normalised
question name and the question's type); the profile's settings only for a request with a profile.  The global
function looks at nothing but the request and the client address (its parameters: no request information,
no device result). -/
theorem access_order (mw : S_ratelimitmw_Middleware) (ri : Option S_agd_RequestInfo) (q : Unit) (host name : String)
    (ip hostB : Bool) (qt : Int) (dd : Option S_agd_Profile × Option S_agd_Device) (prof : Bool) :
    let tg := names (isBlockedGlobally mw q host name ip hostB qt).2
    let tp := names (isBlockedByProfile mw ri dd prof).2
    tg.take 2 = ["NormalizeQueryDomain", "IsBlockedIP"] ∧
    (ip = true → "IsBlockedHost" ∉ tg) ∧
    (ip = false → "IsBlockedHost" ∈ tg) ∧
    "IsBlocked" ∉ tg ∧ "DeviceData" ∉ tg ∧
    ("IsBlocked" ∈ tp ↔ dd.1.isSome) := by
  unfold isBlockedGlobally isBlockedByProfile names
  cases ip <;> cases hostB <;> cases hd : dd.1 <;> cases prof <;> simp [hd]

/-! ## The handler: a rejected request reaches no later stage -/

/-- Calls that process, answer or account a request. -/
def laterStages : List String :=
  ["handleDeviceResult", "serveDeviceErr", "serveLocationErr", "ContextWithRequestInfo", "serveWithRatelimiting"]

/-- Calls that look the client up: the GeoIP database (whose errors are reported) and the device finder inside
`newRequestInfo` (which may create an automatic device through the backend). -/
def lookups : List String := ["location", "newRequestInfo"]

/-- Fifth deepening.  When the *global* access check rejects the request, the handler's whole trace is that one
call: no error, no location lookup, no device lookup (hence no automatic device), no request information taken
from the pool, none of the later stages.  (Hypothesis: a usable peer port.) -/
theorem global_blocked_does_nothing (mw : S_ratelimitmw_Middleware) (u1 u3 : Unit) (port : Int)
    (loc : Option S_geoip_Location × Option S_dnsmsg_ECS × Option String) (ri : Option S_agd_RequestInfo) (pb : Bool)
    (dev : Bool × Option String) (de le : Option String) (cx : AbsPtr) (next : Option String) (hp : port ≠ 0) :
    Wrap_handler mw u1 port u3 true loc ri pb dev de le cx next = some (none, [("isBlockedGlobally", ["_", "_", "_"])]) := by
  simp [Wrap_handler, hp]

/-- When the access check — global or profile — rejects the request, the handler returns no error, and neither the device
result (nor `serveDeviceErr`), nor a malformed-ECS answer (`serveLocationErr`; both names since the C09 repair,
which sends these two answers through the rate limiter), nor the rest of the pipeline is reached; a request-info object
taken from the pool is given back exactly once, as the last effect.  (Hypotheses: a usable peer port and a
request info, as `newRequestInfo` always returns one.) -/
theorem blocked_reaches_nothing (mw : S_ratelimitmw_Middleware) (u1 u3 : Unit) (port : Int)
    (loc : Option S_geoip_Location × Option S_dnsmsg_ECS × Option String) (ri : S_agd_RequestInfo) (gb pb : Bool)
    (dev : Bool × Option String) (de le : Option String) (cx : AbsPtr) (next : Option String) (hp : port ≠ 0)
    (hb : (gb || pb) = true) :
    ∃ tr, Wrap_handler mw u1 port u3 gb loc (some ri) pb dev de le cx next = some (none, tr) ∧
      (∀ s ∈ laterStages, s ∉ names tr) ∧
      (names tr).count "Put" = (names tr).count "newRequestInfo" ∧
      (gb = false → (names tr).getLast? = some "Put") ∧
      (gb = true → ∀ s ∈ lookups, s ∉ names tr) := by
  cases gb <;> cases pb <;> simp_all [Wrap_handler, names, laterStages, lookups]

/-- The access checks come before everything that could answer the client, and the global one before everything
that looks the client up: in every run that gets as far as a lookup, the device result or the malformed-ECS answer,
`isBlockedGlobally` has been called earlier, and `isBlockedByProfile` before every later stage. -/
theorem access_checked_first (mw : S_ratelimitmw_Middleware) (u1 u3 : Unit) (port : Int)
    (loc : Option S_geoip_Location × Option S_dnsmsg_ECS × Option String) (ri : S_agd_RequestInfo)
    (gb pb : Bool) (dev : Bool × Option String) (de le : Option String) (cx : AbsPtr) (next : Option String)
    (r : Option String) (tr : List (String × List String))
    (h : Wrap_handler mw u1 port u3 gb loc (some ri) pb dev de le cx next = some (r, tr)) (s : String)
    (hs : s ∈ laterStages ++ lookups) (hin : s ∈ names tr) :
    (names tr).head? = some "isBlockedGlobally" ∧
    (s ∈ laterStages → ∃ pre post, names tr = pre ++ "isBlockedByProfile" :: post ∧ s ∉ pre) := by
  by_cases hp : port = 0
  · simp [Wrap_handler, hp] at h
    obtain ⟨_, rfl⟩ := h
    simp [laterStages, lookups, names] at hs hin
    rcases hs with rfl | rfl | rfl | rfl | rfl | rfl | rfl <;> simp at hin
  · cases gb
    · refine ⟨?_, fun hl => ⟨["isBlockedGlobally", "location", "newRequestInfo"], (names tr).drop 4, ?_, ?_⟩⟩
      · cases pb <;> cases hc : dev.1 <;> cases hl : loc.2.2 <;>
          simp [Wrap_handler, hp, hc, hl] at h <;> obtain ⟨_, rfl⟩ := h <;> simp [names]
      · cases pb <;> cases hc : dev.1 <;> cases hl : loc.2.2 <;>
          simp [Wrap_handler, hp, hc, hl] at h <;> obtain ⟨_, rfl⟩ := h <;> simp [names]
      · simp [laterStages] at hl
        rcases hl with rfl | rfl | rfl | rfl | rfl <;> simp
    · simp [Wrap_handler, hp] at h
      obtain ⟨_, rfl⟩ := h
      simp [laterStages, lookups, names] at hs hin
      rcases hs with rfl | rfl | rfl | rfl | rfl | rfl | rfl <;> simp at hin

/-- A request that nothing rejects is processed: the device result is handled and, if it lets the
request continue and the ECS option was fine, the rest of the pipeline runs. -/
theorem unblocked_is_processed (mw : S_ratelimitmw_Middleware) (u1 u3 : Unit) (port : Int)
    (l : Option S_geoip_Location) (e : Option S_dnsmsg_ECS) (ri : S_agd_RequestInfo)
    (de le : Option String) (cx : AbsPtr) (next : Option String) (hp : port ≠ 0) :
    ∃ tr, Wrap_handler mw u1 port u3 false (l, e, none) (some ri) false (true, none) de le cx next = some (next, tr) ∧
      "serveWithRatelimiting" ∈ names tr := by
  simp [Wrap_handler, hp, names]

/-- Non-vacuity of the handler theorems: concrete runs in which the global and the profile check reject the request. -/
example (mw : S_ratelimitmw_Middleware) (ri : S_agd_RequestInfo) :
    (Wrap_handler mw () 53 () false (none, none, none) (some ri) true (true, none) none none true none).map (·.1) = some none := by
  simp [Wrap_handler]
example (mw : S_ratelimitmw_Middleware) :
    (Wrap_handler mw () 53 () true (none, none, none) none false (true, none) none none true none).map (·.1) = some none := by
  simp [Wrap_handler]

/-! ## Where the profile's access object comes from (third deepening)

`backendpb.AccessSettings.toInternal` and `filecachepb.Access.toInternal`: the returned interface value
is abstract (`true` = non-nil), the construction of a `DefaultProfile` is a traced call. -/

/-- The backend converter never panics (nil message included). -/
theorem backend_access_total (x : Option S_backendpb_AccessSettings) (o : Option S_access_DefaultProfile) :
    accessSettings_toInternal x o ≠ none := by
  cases x with
  | none => simp [accessSettings_toInternal]
  | some s => cases he : s.Enabled <;> simp [accessSettings_toInternal, he]

/-- A `DefaultProfile` (the only thing that can reject a request) is built exactly when the message
exists and its `enabled` switch is on; otherwise nothing is built (`EmptyProfile`). -/
theorem backend_access_enabled_iff (x : Option S_backendpb_AccessSettings) (o : Option S_access_DefaultProfile) :
    (accessSettings_toInternal x o).map (fun r => names r.2) =
      some (if (x.map (·.Enabled)).getD false then ["NewDefaultProfile"] else []) := by
  cases x with
  | none => simp [accessSettings_toInternal, names]
  | some s => cases he : s.Enabled <;> simp [accessSettings_toInternal, he, names]

/-- The cache converter builds a `DefaultProfile` exactly when the cache holds an access message (the
cache has no `enabled` switch: disabled settings were written as "no message"). -/
theorem cache_access_present_iff (x : Option S_filecachepb_Access) (o : Option S_access_DefaultProfile) :
    names (cacheAccess_toInternal x o).2 = (if x.isSome then ["NewDefaultProfile"] else []) := by
  cases x <;> simp [cacheAccess_toInternal, names]

/-! ## `access.lowerRule` (translator round 3; the code after the `fix:` commit "do not lower-case the
regular expressions of access rules") is the hand model `Agd.Access.lowerRule`, for every rule text

The function is translated with `"ascii_strings"`: a string is its list of characters and byte offsets are
character offsets (`TrPrelude.goStrLen`, `goLastIndexByte`, `goStrSlice?`, `goTrimSpace`, `goToLower`). -/

open Agd.Access in
private theorem lastIdx_split : ∀ l : List Char,
    (splitLastSlash l = none → lastIdxL '/' l = -1) ∧
    (∀ ab, splitLastSlash l = some ab → lastIdxL '/' l = (ab.1.length : Int) - 1 ∧ l = ab.1 ++ ab.2 ∧ 0 < ab.1.length)
  | [] => by simp [splitLastSlash, lastIdxL]
  | c :: cs => by
    have ih := lastIdx_split cs
    cases hs : splitLastSlash cs with
    | some ab =>
      obtain ⟨h1, h2, h3⟩ := ih.2 ab hs
      refine ⟨by simp [splitLastSlash, hs], fun ab' h => ?_⟩
      simp only [splitLastSlash, hs, Option.some.injEq] at h
      subst h
      have hge : 0 ≤ lastIdxL '/' cs := by omega
      refine ⟨?_, by simp [← h2], by simp⟩
      simp only [lastIdxL, hge, ↓reduceIte, List.length_cons, h1]
      omega
    | none =>
      have h1 := ih.1 hs
      have hlt : ¬ (0 ≤ lastIdxL '/' cs) := by omega
      by_cases hc : c = '/'
      · subst hc
        refine ⟨by simp [splitLastSlash, hs], fun ab' h => ?_⟩
        simp only [splitLastSlash, hs, beq_self_eq_true, ↓reduceIte, Option.some.injEq] at h
        subst h
        simp [lastIdxL, hlt]
      · refine ⟨fun _ => by simp [lastIdxL, hlt, hc], fun ab' h => ?_⟩
        simp [splitLastSlash, hs, hc] at h

private theorem slash_char : Char.ofNat (47 : Int).toNat = '/' := by decide

open Agd.Access in
/-- The core of the equivalence on character lists: `pre` is the removed `@@` (or nothing). -/
private theorem lower_core (pre rest : List Char) (hpre : pre = [] ∨ pre = ['@', '@']) :
    let t := pre ++ '/' :: rest
    let e := lastIdxL '/' t
    (splitLastSlash rest = none → e = (pre.length : Int)) ∧
    (∀ ab, splitLastSlash rest = some ab → e ≠ (pre.length : Int) ∧ 0 ≤ e ∧ e + 1 ≤ (t.length : Int) ∧
      t.take (e + 1).toNat = pre ++ '/' :: ab.1 ∧ t.drop (e + 1).toNat = ab.2) := by
  intro t e
  obtain ⟨hn, hsome⟩ := lastIdx_split rest
  constructor
  · intro h
    have h1 := hn h
    rcases hpre with rfl | rfl <;> simp [e, t, lastIdxL, h1]
  · intro ab h
    obtain ⟨h1, h2, h3⟩ := hsome ab h
    have hge : 0 ≤ lastIdxL '/' rest := by omega
    have he : e = (pre.length : Int) + 1 + lastIdxL '/' rest := by
      rcases hpre with rfl | rfl
      · simp only [e, t, List.nil_append, lastIdxL, hge, ↓reduceIte, List.length_nil]; omega
      · have h0 : (0 : Int) ≤ lastIdxL '/' rest + 1 := by omega
        have h00 : (0 : Int) ≤ lastIdxL '/' rest + 1 + 1 := by omega
        simp only [e, t, List.cons_append, List.nil_append, lastIdxL, hge, h0, h00, ↓reduceIte, List.length_cons, List.length_nil]
        omega
    have hn1 : (e + 1).toNat = pre.length + 1 + ab.1.length := by omega
    refine ⟨by omega, by omega, ?_, ?_, ?_⟩
    · simp only [t, List.length_append, List.length_cons]
      rw [h2, List.length_append]; omega
    · rw [hn1]
      simp only [t]
      rw [h2]
      rw [show pre ++ '/' :: (ab.1 ++ ab.2) = (pre ++ '/' :: ab.1) ++ ab.2 by simp]
      rw [List.take_left' (by simp; omega)]
    · rw [hn1]
      simp only [t]
      rw [h2]
      rw [show pre ++ '/' :: (ab.1 ++ ab.2) = (pre ++ '/' :: ab.1) ++ ab.2 by simp]
      rw [List.drop_left' (by simp; omega)]

open Agd.Access in
private theorem strip_spec (t : List Char) :
    (stripAllow t = (['@', '@'], t.drop 2) ∧ ['@', '@'].isPrefixOf t = true ∧ t = ['@', '@'] ++ t.drop 2) ∨
    (stripAllow t = ([], t) ∧ ['@', '@'].isPrefixOf t = false) := by
  unfold stripAllow
  split
  · left; simp
  · rename_i hno
    right
    refine ⟨rfl, ?_⟩
    cases h : ['@', '@'].isPrefixOf t with
    | false => rfl
    | true =>
      obtain ⟨r, hr⟩ := List.isPrefixOf_iff_prefix.mp h
      exact absurd hr.symm (by simpa using hno r)

open Agd.Access in
/-- The generated definition after the text has been trimmed, on character lists. -/
private theorem lower_tail (pre pat : List Char) (hpre : pre = [] ∨ pre = ['@', '@']) :
    (if (!(goHasPrefix (String.ofList pat) "/")) then some (goToLower (String.ofList (pre ++ pat)))
      else
        if (decide (goLastIndexByte (String.ofList (pre ++ pat)) (47 : Int) =
            goStrLen (String.ofList (pre ++ pat)) - goStrLen (String.ofList pat))) then
          some (goToLower (String.ofList (pre ++ pat)))
        else
          match (((goStrSlice? (String.ofList (pre ++ pat)) (0 : Int) (goLastIndexByte (String.ofList (pre ++ pat)) (47 : Int) + (1 : Int)))).bind fun v2 =>
            ((((goStrSlice? (String.ofList (pre ++ pat)) (goLastIndexByte (String.ofList (pre ++ pat)) (47 : Int) + (1 : Int)) (goStrLen (String.ofList (pre ++ pat))))).bind fun v1 =>
              some ((goToLower v1)))).bind fun v3 => some ((v2 ++ v3))) with
          | none => none
          | some x4 => some x4) =
    some (String.ofList (match pat with
      | '/' :: rest =>
        match splitLastSlash rest with
        | some ab => pre ++ '/' :: ab.1 ++ lowerL ab.2
        | none => lowerL (pre ++ pat)
      | _ => lowerL (pre ++ pat))) := by
  have hlow : ∀ l, goToLower (String.ofList l) = String.ofList (lowerL l) := by intro l; simp [goToLower, lowerL]
  match pat with
  | [] => simp [goHasPrefix, hlow]
  | c :: rest =>
    by_cases hc : c = '/'
    · subst hc
      have hp : goHasPrefix (String.ofList ('/' :: rest)) "/" = true := by simp [goHasPrefix]
      have hlen : goStrLen (String.ofList (pre ++ '/' :: rest)) - goStrLen (String.ofList ('/' :: rest)) = (pre.length : Int) := by
        simp [goStrLen] <;> omega
      have hidx : goLastIndexByte (String.ofList (pre ++ '/' :: rest)) (47 : Int) = lastIdxL '/' (pre ++ '/' :: rest) := by
        simp [goLastIndexByte, slash_char]
      obtain ⟨hnone, hsome⟩ := lower_core pre rest hpre
      simp only [hp, Bool.not_true, Bool.false_eq_true, ↓reduceIte, hlen, hidx]
      cases hs : splitLastSlash rest with
      | none =>
        simp only [hnone hs, decide_true, ↓reduceIte, hlow]
      | some ab =>
        obtain ⟨hne, h0, hle, htake, hdrop⟩ := hsome ab hs
        have hle' : lastIdxL '/' (pre ++ '/' :: rest) + 1 ≤ (((pre ++ '/' :: rest).length : Nat) : Int) := hle
        simp only [hne, decide_false, Bool.false_eq_true, ↓reduceIte]
        have s1 : goStrSlice? (String.ofList (pre ++ '/' :: rest)) 0 (lastIdxL '/' (pre ++ '/' :: rest) + 1) =
            some (String.ofList (pre ++ '/' :: ab.1)) := by
          unfold goStrSlice?
          rw [if_pos ⟨by omega, by omega, by simpa using hle'⟩]
          simp [htake]
        have s2 : goStrSlice? (String.ofList (pre ++ '/' :: rest)) (lastIdxL '/' (pre ++ '/' :: rest) + 1)
            (goStrLen (String.ofList (pre ++ '/' :: rest))) = some (String.ofList ab.2) := by
          generalize pre ++ '/' :: rest = L at *
          unfold goStrSlice? goStrLen
          rw [if_pos ⟨by omega, by simpa using hle', by simp⟩]
          simp [hdrop]
        rw [s1, s2]
        simp [hlow, String.append_assoc]
    · have hp : goHasPrefix (String.ofList (c :: rest)) "/" = false := by
        have : ('/' == c) = false := by simpa using Ne.symm hc
        simp [goHasPrefix, List.isPrefixOf, this]
      simp only [hp, Bool.not_false, ↓reduceIte, hlow]
      congr 2
      split
      · rename_i heq; simp at heq; exact absurd heq.1 hc
      · rfl

open Agd.Access in
/-- **`access.lowerRule`, as translated from the source, is the hand model for every rule text** (so it also
never panics: the two slice expressions are always within bounds).  Under the `"ascii_strings"` reading of
strings as character lists this needs no hypothesis on the text. -/
theorem lowerRule_tr (s : String) : Agd.Gen.TrC10.lowerRule s = some (Agd.Access.lowerRule s) := by
  have hsp : goIsSpace = isSpaceC := rfl
  have ht : goTrimSpace s = String.ofList (trimSpaceL s.toList) := by simp [goTrimSpace, trimSpaceL, hsp]
  unfold Agd.Gen.TrC10.lowerRule Agd.Access.lowerRule lowerRuleL
  simp only [ht]
  generalize trimSpaceL s.toList = t
  rcases strip_spec t with ⟨hst, hpfx, hsplit⟩ | ⟨hst, hpfx⟩
  · have htp : goTrimPrefix (String.ofList t) "@@" = String.ofList (t.drop 2) := by
      simp [goTrimPrefix, hpfx]
    rw [htp, hst]
    have := lower_tail ['@', '@'] (t.drop 2) (Or.inr rfl)
    rw [← hsplit] at this
    exact this
  · have htp : goTrimPrefix (String.ofList t) "@@" = String.ofList t := by
      simp [goTrimPrefix, hpfx]
    rw [htp, hst]
    exact lower_tail [] t (Or.inl rfl)

/-- Non-vacuity: a regular-expression rule with options keeps its expression; a plain rule is lower-cased. -/
example : lowerRule "  @@/Ab\\D+/$DNSTYPE=A " = some "@@/Ab\\D+/$dnstype=a" ∧ lowerRule "||Example.ORG^" = some "||example.org^" ∧
    lowerRule "/" = some "/" := by decide

end Agd.Tie.TrC10

#print axioms Agd.Tie.TrC10.translation_complete
#print axioms Agd.Tie.TrC10.matchASNs_spec
#print axioms Agd.Tie.TrC10.allowed_over_blocked
#print axioms Agd.Tie.TrC10.profile_blocked_iff
#print axioms Agd.Tie.TrC10.access_blocked_iff
#print axioms Agd.Tie.TrC10.access_order
#print axioms Agd.Tie.TrC10.blocked_reaches_nothing
#print axioms Agd.Tie.TrC10.access_checked_first
#print axioms Agd.Tie.TrC10.unblocked_is_processed
#print axioms Agd.Tie.TrC10.backend_access_total
#print axioms Agd.Tie.TrC10.backend_access_enabled_iff
#print axioms Agd.Tie.TrC10.cache_access_present_iff
