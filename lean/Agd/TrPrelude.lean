/-!
Run-time vocabulary of the definitions that `extract/tr.go` regenerates from the Go source
(`Agd/Gen/Tr<Cxx>.lean`).  Core Lean only.
-/
namespace Agd.TrPrelude

/-- What translated code can observe of a pointer (interface, map, slice, …) to an abstract object:
whether it is non-nil. -/
abbrev AbsPtr := Bool

/-- Go's `cmp.Or` over errors: the first non-nil one. -/
def firstErr : List (Option String) → Option String
  | [] => none
  | some e :: _ => some e
  | none :: r => firstErr r

/-- `validateProp(name, f)`: the error of `f`, prefixed with the property name. -/
def wrapErr (name : String) (e : Option String) : Option String := e.map fun s => name ++ ": " ++ s

/-- Integer division / remainder; a zero divisor is a run-time panic (`none`). -/
def goDiv? (f : Int → Int → Int) (a b : Int) : Option Int := if b = 0 then none else some (f a b)

/-- Result of an arithmetic operation on an unsigned integer type with `m` values (`m = 2^width`). -/
def goWrapU (m : Int) (x : Int) : Int := x % m

/-- `xs[i]`: an index out of range is a run-time panic (`none`). -/
def goIndex? {α : Type} (xs : List α) (i : Int) : Option α :=
  if i < 0 then none else xs[i.toNat]?

/-- `copy(dst, src)`: `dst` afterwards — its first `min (len dst) (len src)` elements are those of
`src`, the length is unchanged. -/
def goCopy {α : Type} (dst src : List α) : List α := src.take dst.length ++ dst.drop src.length

/-- The result of `copy(dst, src)`: the number of elements copied. -/
def goCopyN {α : Type} (dst src : List α) : Int := (min dst.length src.length : Nat)

/-- One iteration of a translated `for … range` loop. -/
inductive Step (σ ρ : Type) where
  /-- fall through to the next element (also `continue`) -/
  | next (s : σ)
  /-- `break` -/
  | brk (s : σ)
  /-- `return` of the enclosing function -/
  | ret (r : ρ)

/-- `for i, x := range xs { … }` with loop state `σ`: the final state, or the value returned from
inside the loop. -/
def goRangeFrom {α σ ρ : Type} (i : Int) : List α → σ → (σ → Int → α → Step σ ρ) → σ ⊕ ρ
  | [], s, _ => .inl s
  | x :: xs, s, f =>
    match f s i x with
    | .next s' => goRangeFrom (i + 1) xs s' f
    | .brk s' => .inl s'
    | .ret r => .inr r

def goRange {α σ ρ : Type} (xs : List α) (s : σ) (f : σ → Int → α → Step σ ρ) : σ ⊕ ρ :=
  goRangeFrom 0 xs s f

/-- The same with a body that may panic (`none`). -/
def goRangeFrom? {α σ ρ : Type} (i : Int) : List α → σ → (σ → Int → α → Option (Step σ ρ)) → Option (σ ⊕ ρ)
  | [], s, _ => some (.inl s)
  | x :: xs, s, f =>
    match f s i x with
    | none => none
    | some (.next s') => goRangeFrom? (i + 1) xs s' f
    | some (.brk s') => some (.inl s')
    | some (.ret r) => some (.inr r)

def goRange? {α σ ρ : Type} (xs : List α) (s : σ) (f : σ → Int → α → Option (Step σ ρ)) : Option (σ ⊕ ρ) :=
  goRangeFrom? 0 xs s f

/-- `for cond { body }`: the body (which starts by evaluating the condition: `.brk` when it is false) is
run at most `fuel` times; it is told the number of the iteration, so that calls the translation keeps
opaque can have a different result in every iteration.  `none`: the bound was reached first. -/
def goForFrom {σ ρ : Type} (f : Nat → σ → Step σ ρ) : Nat → Nat → σ → Option (σ ⊕ ρ)
  | 0, _, _ => none
  | fuel + 1, i, s =>
    match f i s with
    | .next s' => goForFrom f fuel (i + 1) s'
    | .brk s' => some (.inl s')
    | .ret r => some (.inr r)

def goFor {σ ρ : Type} (fuel : Nat) (s : σ) (f : Nat → σ → Step σ ρ) : Option (σ ⊕ ρ) := goForFrom f fuel 0 s

/-- The same with a body that may panic (`none`, like an exhausted bound). -/
def goForFrom? {σ ρ : Type} (f : Nat → σ → Option (Step σ ρ)) : Nat → Nat → σ → Option (σ ⊕ ρ)
  | 0, _, _ => none
  | fuel + 1, i, s =>
    match f i s with
    | none => none
    | some (.next s') => goForFrom? f fuel (i + 1) s'
    | some (.brk s') => some (.inl s')
    | some (.ret r) => some (.inr r)

def goFor? {σ ρ : Type} (fuel : Nat) (s : σ) (f : Nat → σ → Option (Step σ ρ)) : Option (σ ⊕ ρ) := goForFrom? f fuel 0 s

/-! ### Models of the few `strings` functions the translated code uses (on valid UTF-8 text) -/

def goHasPrefix (s p : String) : Bool := p.toList.isPrefixOf s.toList
def goHasSuffix (s p : String) : Bool := p.toList.isSuffixOf s.toList
def goTrimPrefix (s p : String) : String :=
  if p.toList.isPrefixOf s.toList then String.ofList (s.toList.drop p.toList.length) else s
def goTrimSuffix (s p : String) : String :=
  if p.toList.isSuffixOf s.toList then String.ofList (s.toList.take (s.toList.length - p.toList.length)) else s

/-! "ascii_strings": a string as its list of characters, byte offsets = character offsets -/

def goIsSpace (c : Char) : Bool :=
  c == ' ' || c == '\t' || c == '\n' || c == '\r' || c == Char.ofNat 11 || c == Char.ofNat 12
def goTrimSpace (s : String) : String :=
  String.ofList ((s.toList.dropWhile goIsSpace).reverse.dropWhile goIsSpace).reverse
def goToLower (s : String) : String := String.ofList (s.toList.map Char.toLower)
def goStrLen (s : String) : Int := (s.toList.length : Int)
/-- Offset of the last element equal to `c`, `-1` when there is none. -/
def lastIdxL (c : Char) : List Char → Int
  | [] => -1
  | x :: xs => if 0 ≤ lastIdxL c xs then lastIdxL c xs + 1 else if x == c then 0 else -1
def goLastIndexByte (s : String) (b : Int) : Int := lastIdxL (Char.ofNat b.toNat) s.toList
def goStrSlice? (s : String) (lo hi : Int) : Option String :=
  if 0 ≤ lo ∧ lo ≤ hi ∧ hi ≤ (s.toList.length : Int) then some (String.ofList ((s.toList.take hi.toNat).drop lo.toNat)) else none

/-- Position-wise search: the text before the first occurrence of `sep` (non-empty) and the rest after it. -/
def cutList (sep : List Char) : List Char → Option (List Char × List Char)
  | [] => if sep.isEmpty then some ([], []) else none
  | c :: cs =>
    if sep.isPrefixOf (c :: cs) then some ([], (c :: cs).drop sep.length)
    else match cutList sep cs with
      | none => none
      | some (a, b) => some (c :: a, b)

/-- `strings.SplitN(s, sep, n)` for a non-empty separator: at most `n` pieces when `n > 0`, all of
them when `n < 0`, none (`nil`) when `n = 0`.  `fuel` bounds the recursion by the text length. -/
def splitListN (sep : List Char) : Nat → Int → List Char → List (List Char)
  | 0, _, s => [s]
  | fuel + 1, n, s =>
    if n = 1 then [s]
    else match cutList sep s with
      | none => [s]
      | some (a, b) => a :: splitListN sep fuel (n - 1) b

def goSplitN (s sep : String) (n : Int) : List String :=
  if n = 0 then [] else (splitListN sep.toList (s.toList.length + 1) n s.toList).map String.ofList
def goSplit (s sep : String) : List String := goSplitN s sep (-1)
def goContains (s sub : String) : Bool := (cutList sub.toList s.toList).isSome

@[simp] theorem firstErr_nil : firstErr [] = none := rfl
@[simp] theorem firstErr_none (r : List (Option String)) : firstErr (none :: r) = firstErr r := rfl
@[simp] theorem firstErr_some (e : String) (r : List (Option String)) : firstErr (some e :: r) = some e := rfl

theorem firstErr_eq_none {l : List (Option String)} : firstErr l = none ↔ ∀ e ∈ l, e = none := by
  induction l with
  | nil => simp
  | cons h t ih => cases h <;> simp [ih]

@[simp] theorem wrapErr_eq_none (n : String) (e : Option String) : wrapErr n e = none ↔ e = none := by
  cases e <;> simp [wrapErr]

@[simp] theorem goCopy_length {α : Type} (dst src : List α) : (goCopy dst src).length = dst.length := by
  simp only [goCopy, List.length_append, List.length_take, List.length_drop]; omega

theorem goCopy_take {α : Type} (dst src : List α) (h : src.length ≤ dst.length) :
    (goCopy dst src).take src.length = src := by
  simp [goCopy, List.take_of_length_le h]

theorem goCopyN_of_le {α : Type} (dst src : List α) (h : src.length ≤ dst.length) :
    goCopyN dst src = src.length := by
  simp only [goCopyN]; rw [Nat.min_eq_right h]

/-- A translated range loop whose body, on the elements of `xs` and on states that satisfy the
invariant `P`, always falls through to the next element with the state `g s x`, is a left fold. -/
theorem goRangeFrom?_fold {α σ ρ : Type} (P : σ → Prop) (g : σ → α → σ) (f : σ → Int → α → Option (Step σ ρ)) :
    ∀ (xs : List α) (i : Int) (s : σ), P s →
      (∀ s i x, x ∈ xs → P s → f s i x = some (.next (g s x)) ∧ P (g s x)) →
      goRangeFrom? i xs s f = some (.inl (xs.foldl g s)) ∧ P (xs.foldl g s)
  | [], _, _, hs, _ => ⟨rfl, hs⟩
  | x :: xs, i, s, hs, h => by
    rw [goRangeFrom?, (h s i x (by simp) hs).1]
    exact goRangeFrom?_fold P g f xs (i + 1) (g s x) (h s i x (by simp) hs).2
      (fun s i y hy => h s i y (by simp [hy]))

/-- Invariant rule for translated `for` loops: if every iteration keeps `P` when it goes on and
establishes `Q` when it leaves the loop (by `break` / a false condition, or by `return`), then every
result of the loop — for every bound — satisfies `Q`. -/
theorem goForFrom_inv {σ ρ : Type} (f : Nat → σ → Step σ ρ) (P : Nat → σ → Prop) (Q : σ ⊕ ρ → Prop)
    (hstep : ∀ i s, P i s → match f i s with
      | .next s' => P (i + 1) s'
      | .brk s' => Q (.inl s')
      | .ret r => Q (.inr r)) :
    ∀ (fuel i : Nat) (s : σ), P i s → ∀ r, goForFrom f fuel i s = some r → Q r
  | 0, _, _, _, _, h => by simp [goForFrom] at h
  | fuel + 1, i, s, hp, r, h => by
    have hs := hstep i s hp
    unfold goForFrom at h
    cases hf : f i s with
    | next s' => rw [hf] at h hs; exact goForFrom_inv f P Q hstep fuel (i + 1) s' hs r h
    | brk s' => rw [hf] at h hs; cases h; exact hs
    | ret r' => rw [hf] at h hs; cases h; exact hs

theorem goFor_inv {σ ρ : Type} (f : Nat → σ → Step σ ρ) (P : Nat → σ → Prop) (Q : σ ⊕ ρ → Prop) (fuel : Nat) (s : σ)
    (h0 : P 0 s)
    (hstep : ∀ i s, P i s → match f i s with
      | .next s' => P (i + 1) s'
      | .brk s' => Q (.inl s')
      | .ret r => Q (.inr r)) :
    ∀ r, goFor fuel s f = some r → Q r :=
  goForFrom_inv f P Q hstep fuel 0 s h0

/-- A loop whose body stops (break / false condition / return) at iteration `i + k` at the latest ends
within any bound above `k`: more precisely, if the body does not go on at iteration `i + k` on any
state, `goForFrom` with more than `k` units of fuel is not `none`. -/
theorem goForFrom_terminates {σ ρ : Type} (f : Nat → σ → Step σ ρ) :
    ∀ (k fuel i : Nat) (s : σ), k < fuel → (∀ s, ∀ s', f (i + k) s ≠ .next s') → goForFrom f fuel i s ≠ none
  | _, 0, _, _, h, _ => by omega
  | k, fuel + 1, i, s, h, hk => by
    unfold goForFrom
    cases hf : f i s with
    | next s' =>
      cases k with
      | zero => exact absurd hf (by simpa using hk s s')
      | succ k =>
        simp only []
        exact goForFrom_terminates f k fuel (i + 1) s' (by omega) (by
          intro s1 s2; have := hk s1 s2; rwa [show i + (k + 1) = i + 1 + k by omega] at this)
    | brk s' => simp
    | ret r => simp

theorem goWrapU_of_range {m x : Int} (h0 : 0 ≤ x) (h1 : x < m) : goWrapU m x = x :=
  Int.emod_eq_of_lt h0 h1

end Agd.TrPrelude
