/-!
Run-time vocabulary of the definitions that `extract/tr.go` regenerates from the Go source
(`Agd/Gen/Tr<Cxx>.lean`).  Core Lean only.
-/
namespace Agd.TrPrelude

/-- Go's `cmp.Or` over errors: the first non-nil one. -/
def firstErr : List (Option String) → Option String
  | [] => none
  | some e :: _ => some e
  | none :: r => firstErr r

/-- `validateProp(name, f)`: the error of `f`, prefixed with the property name. -/
def wrapErr (name : String) (e : Option String) : Option String := e.map fun s => name ++ ": " ++ s

/-- Integer division / remainder; a zero divisor is a run-time panic (`none`). -/
def goDiv? (f : Int → Int → Int) (a b : Int) : Option Int := if b = 0 then none else some (f a b)

/-- Result of an arithmetic operation on an unsigned integer type with `m` values (`m = 2^width`). -/
def goWrapU (m : Int) (x : Int) : Int := x % m

@[simp] theorem firstErr_nil : firstErr [] = none := rfl
@[simp] theorem firstErr_none (r : List (Option String)) : firstErr (none :: r) = firstErr r := rfl
@[simp] theorem firstErr_some (e : String) (r : List (Option String)) : firstErr (some e :: r) = some e := rfl

theorem firstErr_eq_none {l : List (Option String)} : firstErr l = none ↔ ∀ e ∈ l, e = none := by
  induction l with
  | nil => simp
  | cons h t ih => cases h <;> simp [ih]

@[simp] theorem wrapErr_eq_none (n : String) (e : Option String) : wrapErr n e = none ↔ e = none := by
  cases e <;> simp [wrapErr]

theorem goWrapU_of_range {m x : Int} (h0 : 0 ≤ x) (h1 : x < m) : goWrapU m x = x :=
  Int.emod_eq_of_lt h0 h1

end Agd.TrPrelude
