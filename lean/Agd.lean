-- Root of the `Agd` library: every property module (which pull in models, lemmas and ties).
import Agd.Props.C09
