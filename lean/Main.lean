import Agd.Driver.C09

def main (args : List String) : IO UInt32 := do
  match args with
  | ["C09"] => Agd.Driver.C09.main; return 0
  | _ => IO.eprintln "usage: agdmodel <property>"; return 2
