import Agd.Driver.C01
import Agd.Driver.C02
import Agd.Driver.C03
import Agd.Driver.C04
import Agd.Driver.C05
import Agd.Driver.C06
import Agd.Driver.C07
import Agd.Driver.C08
import Agd.Driver.C09
import Agd.Driver.C10
import Agd.Driver.C11
import Agd.Driver.C12
import Agd.Driver.C13
import Agd.Driver.C14
import Agd.Driver.C15
import Agd.Driver.C16
import Agd.Driver.C17
import Agd.Driver.C18
import Agd.Driver.C19
import Agd.Driver.C20

def main (args : List String) : IO UInt32 := do
  match args with
  | ["C01"] => Agd.Driver.C01.main; return 0
  | ["C02"] => Agd.Driver.C02.main; return 0
  | ["C03"] => Agd.Driver.C03.main; return 0
  | ["C04"] => Agd.Driver.C04.main; return 0
  | ["C05"] => Agd.Driver.C05.main; return 0
  | ["C06"] => Agd.Driver.C06.main; return 0
  | ["C07"] => Agd.Driver.C07.main; return 0
  | ["C08"] => Agd.Driver.C08.main; return 0
  | ["C09"] => Agd.Driver.C09.main; return 0
  | ["C10"] => Agd.Driver.C10.main; return 0
  | ["C11"] => Agd.Driver.C11.main; return 0
  | ["C12"] => Agd.Driver.C12.main; return 0
  | ["C13"] => Agd.Driver.C13.main; return 0
  | ["C14"] => Agd.Driver.C14.main; return 0
  | ["C15"] => Agd.Driver.C15.main; return 0
  | ["C16"] => Agd.Driver.C16.main; return 0
  | ["C17"] => Agd.Driver.C17.main; return 0
  | ["C18"] => Agd.Driver.C18.main; return 0
  | ["C19"] => Agd.Driver.C19.main; return 0
  | ["C20"] => Agd.Driver.C20.main; return 0
  | _ => IO.eprintln "usage: agdmodel <property>"; return 2
