#!/usr/bin/env python3
"""Regenerates MANIFEST.json from props.json (claimed checks) and properties.jsonl."""
import json, os
root = os.path.dirname(os.path.abspath(__file__))
import glob
props = {os.path.basename(p)[:-5]: json.load(open(p)) for p in glob.glob(os.path.join(root, "props", "C*.json"))}
ids = [json.loads(l)["id"] for l in open(os.path.join(root, "properties.jsonl")) if l.strip()]
checks, na = [], []
for pid in ids:
    c = props.get(pid)
    if not c or c.get("not_applicable"):
        na.append({"property_id": pid, "reason": (c or {}).get("not_applicable", "check not built yet; planned per DESIGN.md section 5")})
        continue
    checks.append({
        "property_id": pid,
        "quick_cmd": "./check %s --tier quick" % pid,
        "thorough_cmd": "./check %s --tier thorough" % pid,
        "evidence_file": "evidence/%s.json" % pid,
        "replay_cmd_template": "./check %s --replay {path}" % pid,
        "engine": "lean4-proof+correspondence",
        "level_claimed": {"category": "proof", "text": c["level_text"], "design_ref": "DESIGN.md section 5, " + pid},
        "level_note": "; ".join(c.get("trusted_base", []) + ["partial: " + p for p in c.get("partial", [])]) or "see DESIGN.md section 3",
        "technique": c.get("technique", "Lean 4 theorems over an executable model; model tied to /repo by regenerated source facts (Tie theorems) and a differential correspondence harness"),
    })
man = {
    "version": 1,
    "setup_cmd": "./setup.sh",
    "hooks": {
        "guard": "verif",
        "enable": "go build -tags verif (harness module /verif/harness with replace => /repo)",
        "baseline_off_cmd": "for m in . ./internal/dnsserver; do (cd /repo/$m && go test -json -vet=off -count=1 -timeout 25m ./...); done",
        "source_commits": json.load(open(os.path.join(root, "hooks.json")))["source_commits"],
        "add_only": True,
    },
    "engines": [{
        "name": "lean4-proof+correspondence",
        "path": "check",
        "serves_properties": [c["property_id"] for c in checks],
        "kind_free_text": "Lean 4 kernel-checked theorems over executable models (lean/Agd), regenerated source facts (extract/) with Tie theorems, Go differential harness (harness/) driving the real packages against the compiled model driver, property oracles for the failing-input search",
    }],
    "checks": checks,
    "not_applicable": na,
    "notes": "See DESIGN.md.  known_findings.json lists recorded and fixed defects.",
}
json.dump(man, open(os.path.join(root, "MANIFEST.json"), "w"), indent=1)
print("claimed:", [c["property_id"] for c in checks])
